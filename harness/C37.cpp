// C37 — structured log records are single, faithful JSON lines
// Oracle: a strict RFC 8259 / RFC 3629 decoder written here from the RFCs (no code shared with the logger);
// the captured std::clog output must be one line, parse, and decode back to exactly the logged strings.
#define VERIF_FUZZ_TARGET 1
#include "verif.hpp"

#include "ephemeralnet/daemon/StructuredLogger.hpp"

#include <cstdlib>
#include <fstream>
#include <iostream>
#include <memory>
#include <sstream>
#include <utility>

// ASan's default 256 MB quarantine makes every freed block come back as a fresh page (page faults dominate the run time:
// a KademliaTable alone is 512 small allocations); cases are short-lived, 16 MB still covers many whole cases.
// ASAN_OPTIONS from the environment still apply on top.
extern "C" const char* __asan_default_options() { return "quarantine_size_mb=16"; }

namespace verif {
const PropertyInfo kInfo = {
    "C37", 6, 8, 8,
    "tape -> (level in {info,warning,error}; event name; one record per field, 0..8 fields (name, value); a field name may repeat an "
    "earlier one). Every string is built from a class byte, a length selector (boundary table {0,1,2,3,15,16,17,63,64,255,256,1000} or "
    "uniform < 40 code points; class 'long' = 65536 code points) and a seed: ASCII; the JSON short-escape set \" \\ / BS FF LF CR TAB; "
    "every C0 control byte incl. NUL; DEL; 2-, 3- and 4-byte UTF-8 incl. the edges U+0080/07FF/0800/D7FF/E000/FFFF/10000/10FFFF and "
    "U+2028/2029; a mix of all; or a concatenation of injection snippets (\"}, \\u0041, lone backslash, fake second record after a raw "
    "newline, ...). std::clog is captured by swapping its rdbuf. Oracle: output is non-empty, ends in LF and contains no other LF; the "
    "line is one JSON value under a strict RFC 8259 decoder (UTF-8 validated per RFC 3629, raw bytes < 0x20 rejected, only the eight "
    "short escapes and \\uXXXX with surrogate pairing accepted, nothing but whitespace after the value); it is an object with exactly "
    "one string member 'event' == the logged event, one string member 'level' == the level name, and the ordered (name, value) list of "
    "the 'fields' object (absent or empty when no field was logged; duplicates preserved) == the logged list, all values strings. "
    "Non-trivial: some logged string contains a byte that needs escaping (\", \\, < 0x20) or a multi-byte sequence. "
    "Distinct = hash of the decoded case."};

namespace {
using ephemeralnet::daemon::StructuredLogger;

// ---------------------------------------------------------------- UTF-8 helpers (generator side)
void put_utf8(std::string& s, std::uint32_t cp) {
    if (cp < 0x80) {
        s.push_back(static_cast<char>(cp));
    } else if (cp < 0x800) {
        s.push_back(static_cast<char>(0xC0 | (cp >> 6)));
        s.push_back(static_cast<char>(0x80 | (cp & 0x3F)));
    } else if (cp < 0x10000) {
        s.push_back(static_cast<char>(0xE0 | (cp >> 12)));
        s.push_back(static_cast<char>(0x80 | ((cp >> 6) & 0x3F)));
        s.push_back(static_cast<char>(0x80 | (cp & 0x3F)));
    } else {
        s.push_back(static_cast<char>(0xF0 | (cp >> 18)));
        s.push_back(static_cast<char>(0x80 | ((cp >> 12) & 0x3F)));
        s.push_back(static_cast<char>(0x80 | ((cp >> 6) & 0x3F)));
        s.push_back(static_cast<char>(0x80 | (cp & 0x3F)));
    }
}

const std::uint32_t kEdges2[] = {0x80, 0x81, 0xA0, 0xE9, 0x7FE, 0x7FF};
const std::uint32_t kEdges3[] = {0x800, 0x801, 0x2028, 0x2029, 0xD7FF, 0xE000, 0xFEFF, 0xFFFD, 0xFFFE, 0xFFFF, 0x20AC};
const std::uint32_t kEdges4[] = {0x10000, 0x10001, 0x1F600, 0xFFFFF, 0x100000, 0x10FFFE, 0x10FFFF};
const char kShort[] = {'"', '\\', '/', '\b', '\f', '\n', '\r', '\t'};

enum Cls { kAscii = 0, kShortEsc, kC0, kDel, kTwo, kThree, kFour, kMix, kSnippets, kLong, kClsCount };
const char* kClsName[] = {"ascii", "shortesc", "c0", "del", "utf8-2", "utf8-3", "utf8-4", "mix", "snippets", "long64k"};

std::uint32_t pick_cp(Prng& p, unsigned cls) {
    switch (cls) {
        case kAscii: return 0x20 + static_cast<std::uint32_t>(p.below(0x5F));  // 0x20..0x7E (includes " and \ sometimes)
        case kShortEsc: return static_cast<unsigned char>(kShort[p.below(sizeof kShort)]);
        case kC0: return static_cast<std::uint32_t>(p.below(0x20));
        case kDel: return p.below(3) ? 0x7F : 0x41;
        case kTwo: return p.below(2) ? kEdges2[p.below(6)] : 0x80 + static_cast<std::uint32_t>(p.below(0x780));
        case kThree: {
            if (p.below(2)) return kEdges3[p.below(11)];
            std::uint32_t cp = 0x800 + static_cast<std::uint32_t>(p.below(0xF800));
            if (cp >= 0xD800 && cp <= 0xDFFF) cp = 0xD7FF;  // surrogates are not scalar values
            return cp;
        }
        case kFour: return p.below(2) ? kEdges4[p.below(7)] : 0x10000 + static_cast<std::uint32_t>(p.below(0x100000));
        default: return 0x41;
    }
}

const char* const kSnips[] = {
    "\"}", "\",\"fields\":{\"a\":\"b\"}}", "\\u0041", "\\\\", "\\\"", "\\n", "\\", "\"", "\\u00", "\\ud800", "\xE2\x80\xA8",
    "\n{\"ts\":\"x\",\"level\":\"info\",\"event\":\"forged\"}\n", "\r\n", "}", "{", ":", ",", "\\u", "\\x41", "'", "\x7F", "\\/", "/",
    "\xF0\x9F\x98\x80", "\t", "event", "fields", "\\\\\"", "\x01", "\x1F", "\x1E\x20", "\\b"};
const std::size_t kSnipN = sizeof kSnips / sizeof kSnips[0];

const std::int64_t kLenTable[] = {0, 1, 2, 3, 15, 16, 17, 63, 64, 255, 256, 1000};

unsigned cls_of(unsigned cls_byte) {
    // class distribution: mix and snippets common; long (65536 code points) rare: 1/128 of the strings
    static const unsigned kMap[32] = {kAscii, kShortEsc, kC0, kDel, kTwo, kThree, kFour, kMix, kSnippets, kMix, kShortEsc, kC0,
                                      kMix, kSnippets, kAscii, kThree, kFour, kTwo, kMix, kC0, kShortEsc, kMix, kSnippets, kAscii,
                                      kMix, kC0, kFour, kThree, kMix, kShortEsc, kMix, kLong};
    unsigned cls = kMap[cls_byte % 32];
    if (cls == kLong && ((cls_byte >> 5) & 3) != 3) cls = kMix;
    return cls;
}

std::string gen_string(unsigned cls_byte, unsigned lensel, std::uint64_t seed) {
    unsigned cls = cls_of(cls_byte);
    Prng p(seed ^ (static_cast<std::uint64_t>(cls) << 40) ^ 0xC37);
    std::size_t n = static_cast<std::size_t>(boundary_int(static_cast<std::uint8_t>(lensel), lensel * 7919u + (seed & 0xFF), kLenTable, 0, 39));
    if (cls == kLong) n = 65536;
    std::string s;
    if (cls == kSnippets) {
        n = std::min<std::size_t>(n, 64);
        for (std::size_t i = 0; i < n; ++i) {
            if (p.below(3) == 0) s.push_back(static_cast<char>(0x20 + p.below(0x5F)));
            else s += kSnips[p.below(kSnipN)];
        }
        return s;
    }
    for (std::size_t i = 0; i < n; ++i) {
        unsigned k = cls;
        if (cls == kMix || cls == kLong) k = static_cast<unsigned>(p.below(7));
        put_utf8(s, pick_cp(p, k));
    }
    return s;
}

// ---------------------------------------------------------------- strict RFC 8259 decoder (oracle side)
struct JVal {
    enum T { Null, Bool, Num, Str, Arr, Obj } t = Null;
    std::string s;                                          // Str (decoded UTF-8) / Num (text)
    bool b = false;
    std::vector<JVal> items;                                // Arr
    std::vector<std::string> keys;                          // Obj: member names in document order, duplicates kept
    std::vector<JVal> vals;                                 // Obj: member values, parallel to keys
};

struct JParser {
    const std::string& in;
    std::size_t pos = 0;
    std::string err;
    int depth = 0;
    explicit JParser(const std::string& s) : in(s) {}

    bool fail(const std::string& m) {
        if (err.empty()) err = m + " at byte " + std::to_string(pos);
        return false;
    }
    void ws() {
        while (pos < in.size()) {
            char c = in[pos];
            if (c == ' ' || c == '\t' || c == '\n' || c == '\r') ++pos; else break;
        }
    }
    static int hexv(char c) {
        if (c >= '0' && c <= '9') return c - '0';
        if (c >= 'a' && c <= 'f') return c - 'a' + 10;
        if (c >= 'A' && c <= 'F') return c - 'A' + 10;
        return -1;
    }
    bool hex4(std::uint32_t& out) {
        if (pos + 4 > in.size()) return fail("truncated \\u escape");
        out = 0;
        for (int i = 0; i < 4; ++i) {
            int h = hexv(in[pos + static_cast<std::size_t>(i)]);
            if (h < 0) return fail("non-hex digit in \\u escape");
            out = (out << 4) | static_cast<std::uint32_t>(h);
        }
        pos += 4;
        return true;
    }
    // RFC 3629: validates one multi-byte sequence starting at pos, copies it
    bool utf8_seq(std::string& out) {
        auto u = [&](std::size_t i) { return static_cast<unsigned>(static_cast<unsigned char>(in[i])); };
        unsigned b0 = u(pos);
        std::size_t need;
        std::uint32_t cp, min;
        if (b0 >= 0xC2 && b0 <= 0xDF) { need = 1; cp = b0 & 0x1F; min = 0x80; }
        else if (b0 >= 0xE0 && b0 <= 0xEF) { need = 2; cp = b0 & 0x0F; min = 0x800; }
        else if (b0 >= 0xF0 && b0 <= 0xF4) { need = 3; cp = b0 & 0x07; min = 0x10000; }
        else return fail("invalid UTF-8 lead byte");
        if (pos + need >= in.size()) return fail("truncated UTF-8 sequence");
        for (std::size_t i = 1; i <= need; ++i) {
            unsigned bi = u(pos + i);
            if ((bi & 0xC0) != 0x80) return fail("invalid UTF-8 continuation byte");
            cp = (cp << 6) | (bi & 0x3F);
        }
        if (cp < min) return fail("overlong UTF-8");
        if (cp >= 0xD800 && cp <= 0xDFFF) return fail("UTF-8 encoded surrogate");
        if (cp > 0x10FFFF) return fail("code point beyond U+10FFFF");
        out.append(in, pos, need + 1);
        pos += need + 1;
        return true;
    }
    bool string(std::string& out) {
        if (pos >= in.size() || in[pos] != '"') return fail("expected string");
        ++pos;
        for (;;) {
            if (pos >= in.size()) return fail("unterminated string");
            unsigned char c = static_cast<unsigned char>(in[pos]);
            if (c == '"') { ++pos; return true; }
            if (c < 0x20) return fail("raw control byte inside string");
            if (c == '\\') {
                ++pos;
                if (pos >= in.size()) return fail("truncated escape");
                char e = in[pos++];
                switch (e) {
                    case '"': out.push_back('"'); break;
                    case '\\': out.push_back('\\'); break;
                    case '/': out.push_back('/'); break;
                    case 'b': out.push_back('\b'); break;
                    case 'f': out.push_back('\f'); break;
                    case 'n': out.push_back('\n'); break;
                    case 'r': out.push_back('\r'); break;
                    case 't': out.push_back('\t'); break;
                    case 'u': {
                        std::uint32_t cp;
                        if (!hex4(cp)) return false;
                        if (cp >= 0xDC00 && cp <= 0xDFFF) return fail("lone low surrogate escape");
                        if (cp >= 0xD800 && cp <= 0xDBFF) {
                            if (pos + 2 > in.size() || in[pos] != '\\' || in[pos + 1] != 'u') return fail("lone high surrogate escape");
                            pos += 2;
                            std::uint32_t lo;
                            if (!hex4(lo)) return false;
                            if (lo < 0xDC00 || lo > 0xDFFF) return fail("high surrogate not followed by low surrogate");
                            cp = 0x10000 + ((cp - 0xD800) << 10) + (lo - 0xDC00);
                        }
                        put_utf8(out, cp);
                        break;
                    }
                    default: --pos; return fail("invalid escape character");
                }
                continue;
            }
            if (c < 0x80) { out.push_back(static_cast<char>(c)); ++pos; continue; }
            if (!utf8_seq(out)) return false;
        }
    }
    bool number(JVal& v) {
        std::size_t st = pos;
        if (pos < in.size() && in[pos] == '-') ++pos;
        if (pos >= in.size()) return fail("truncated number");
        if (in[pos] == '0') ++pos;
        else if (in[pos] >= '1' && in[pos] <= '9') { while (pos < in.size() && in[pos] >= '0' && in[pos] <= '9') ++pos; }
        else return fail("invalid number");
        if (pos < in.size() && in[pos] == '.') {
            ++pos;
            if (pos >= in.size() || in[pos] < '0' || in[pos] > '9') return fail("invalid fraction");
            while (pos < in.size() && in[pos] >= '0' && in[pos] <= '9') ++pos;
        }
        if (pos < in.size() && (in[pos] == 'e' || in[pos] == 'E')) {
            ++pos;
            if (pos < in.size() && (in[pos] == '+' || in[pos] == '-')) ++pos;
            if (pos >= in.size() || in[pos] < '0' || in[pos] > '9') return fail("invalid exponent");
            while (pos < in.size() && in[pos] >= '0' && in[pos] <= '9') ++pos;
        }
        v.t = JVal::Num;
        v.s = in.substr(st, pos - st);
        return true;
    }
    bool literal(const char* w) {
        std::size_t n = std::strlen(w);
        if (in.compare(pos, n, w) != 0) return fail("invalid literal");
        pos += n;
        return true;
    }
    bool value(JVal& v) {
        if (++depth > 256) return fail("nesting too deep");
        ws();
        if (pos >= in.size()) return fail("expected value");
        char c = in[pos];
        bool ok;
        if (c == '{') {
            v.t = JVal::Obj;
            ++pos;
            ws();
            if (pos < in.size() && in[pos] == '}') { ++pos; ok = true; }
            else {
                for (;;) {
                    ws();
                    std::string k;
                    if (!string(k)) return false;
                    ws();
                    if (pos >= in.size() || in[pos] != ':') return fail("expected ':'");
                    ++pos;
                    JVal m;
                    if (!value(m)) return false;
                    v.keys.push_back(std::move(k));
                    v.vals.push_back(std::move(m));
                    ws();
                    if (pos < in.size() && in[pos] == ',') { ++pos; continue; }
                    if (pos < in.size() && in[pos] == '}') { ++pos; break; }
                    return fail("expected ',' or '}'");
                }
                ok = true;
            }
        } else if (c == '[') {
            v.t = JVal::Arr;
            ++pos;
            ws();
            if (pos < in.size() && in[pos] == ']') { ++pos; ok = true; }
            else {
                for (;;) {
                    JVal m;
                    if (!value(m)) return false;
                    v.items.push_back(std::move(m));
                    ws();
                    if (pos < in.size() && in[pos] == ',') { ++pos; continue; }
                    if (pos < in.size() && in[pos] == ']') { ++pos; break; }
                    return fail("expected ',' or ']'");
                }
                ok = true;
            }
        } else if (c == '"') {
            v.t = JVal::Str;
            ok = string(v.s);
        } else if (c == 't') { v.t = JVal::Bool; v.b = true; ok = literal("true"); }
        else if (c == 'f') { v.t = JVal::Bool; v.b = false; ok = literal("false"); }
        else if (c == 'n') { v.t = JVal::Null; ok = literal("null"); }
        else ok = number(v);
        --depth;
        return ok;
    }
    bool document(JVal& v) {
        if (!value(v)) return false;
        ws();
        if (pos != in.size()) return fail("trailing bytes after the JSON value");
        return true;
    }
};

bool parse_json(const std::string& text, JVal& v, std::string& err) {
    JParser p(text);
    bool ok = p.document(v);
    err = p.err;
    return ok;
}

// ---------------------------------------------------------------- capture
struct ClogCapture {
    std::stringbuf buf;
    std::streambuf* old;
    ClogCapture() : old(std::clog.rdbuf(&buf)) {}
    ~ClogCapture() { std::clog.rdbuf(old); }
};

std::string show(const std::string& s, std::size_t max = 48) {
    std::string o = "\"";
    static const char* d = "0123456789abcdef";
    std::size_t i = 0;
    for (; i < s.size() && i < max; ++i) {
        unsigned char c = static_cast<unsigned char>(s[i]);
        if (c >= 0x20 && c < 0x7F && c != '"' && c != '\\') o.push_back(static_cast<char>(c));
        else { o += "\\x"; o.push_back(d[c >> 4]); o.push_back(d[c & 15]); }
    }
    o += "\"";
    if (s.size() > max) o += "..(" + std::to_string(s.size()) + "B)";
    return o;
}

struct Classes {
    bool esc = false, quote_bs = false, short_ctl = false, other_c0 = false, nul = false, del = false, two = false, three = false,
         four = false, lsps = false, slash = false;
    void scan(const std::string& s) {
        for (std::size_t i = 0; i < s.size(); ++i) {
            unsigned char c = static_cast<unsigned char>(s[i]);
            if (c == '"' || c == '\\') quote_bs = esc = true;
            else if (c == '/') slash = true;
            else if (c == 0) nul = other_c0 = esc = true;
            else if (c == '\b' || c == '\f' || c == '\n' || c == '\r' || c == '\t') short_ctl = esc = true;
            else if (c < 0x20) other_c0 = esc = true;
            else if (c == 0x7F) del = true;
            else if (c >= 0xF0) four = true;
            else if (c >= 0xE0) {
                three = true;
                if (c == 0xE2 && i + 2 < s.size() && static_cast<unsigned char>(s[i + 1]) == 0x80 &&
                    (static_cast<unsigned char>(s[i + 2]) == 0xA8 || static_cast<unsigned char>(s[i + 2]) == 0xA9)) lsps = true;
            } else if (c >= 0xC0) two = true;
        }
    }
    bool any() const { return esc || two || three || four; }
};

const char* level_name(unsigned l) { return l == 0 ? "info" : l == 1 ? "warning" : "error"; }

// Logs one record and checks the captured output against the logged strings.
void check_record(Ctx& c, unsigned level, const std::string& event, const StructuredLogger::FieldList& fields) {
    std::string out;
    {
        ClogCapture cap;
        auto& lg = StructuredLogger::instance();
        lg.set_enabled(true);
        lg.log(level == 0 ? StructuredLogger::Level::Info : level == 1 ? StructuredLogger::Level::Warning : StructuredLogger::Level::Error,
               event, fields);
        out = cap.buf.str();
    }
    if (const char* dump = std::getenv("VERIF_C37_DUMP")) {
        // optional side channel for an external decoder (e.g. Python json.loads): hex(raw) TAB level TAB hex(event) TAB hexname:hexvalue,...
        std::ofstream f(dump, std::ios::app | std::ios::binary);
        f << hex(out, static_cast<std::size_t>(-1)) << '\t' << level_name(level) << '\t' << hex(event, static_cast<std::size_t>(-1)) << '\t';
        for (std::size_t i = 0; i < fields.size(); ++i)
            f << (i ? "," : "") << hex(fields[i].first, static_cast<std::size_t>(-1)) << ':' << hex(fields[i].second, static_cast<std::size_t>(-1));
        f << '\n';
    }

    if (out.empty()) c.fail("C37:no-output", "log() wrote nothing to std::clog while enabled");
    if (out.back() != '\n') c.fail("C37:not-single-line", "record does not end with a line feed; tail " + show(out.substr(out.size() > 24 ? out.size() - 24 : 0)));
    std::size_t first_nl = out.find('\n');
    if (first_nl != out.size() - 1)
        c.fail("C37:not-single-line", "raw line feed inside the record at byte " + std::to_string(first_nl) + " of " + std::to_string(out.size()) +
                                          "; around " + show(out.substr(first_nl > 16 ? first_nl - 16 : 0, 40)));
    std::string line = out.substr(0, out.size() - 1);

    JVal doc;
    std::string err;
    if (!parse_json(line, doc, err)) {
        std::size_t at = 0;
        auto p = err.rfind(' ');
        if (p != std::string::npos) at = static_cast<std::size_t>(std::strtoull(err.c_str() + p + 1, nullptr, 10));
        c.fail("C37:invalid-json", "strict RFC 8259 decoder rejects the line: " + err + "; around " + show(line.substr(at > 16 ? at - 16 : 0, 40)));
    }
    if (doc.t != JVal::Obj) c.fail("C37:record-shape", "record is not a JSON object");

    const JVal* ev = nullptr;
    const JVal* lv = nullptr;
    const JVal* fl = nullptr;
    std::size_t n_ev = 0, n_lv = 0, n_fl = 0;
    for (std::size_t i = 0; i < doc.keys.size(); ++i) {
        if (doc.keys[i] == "event") { ev = &doc.vals[i]; ++n_ev; }
        else if (doc.keys[i] == "level") { lv = &doc.vals[i]; ++n_lv; }
        else if (doc.keys[i] == "fields") { fl = &doc.vals[i]; ++n_fl; }
    }
    if (n_ev != 1 || ev->t != JVal::Str) c.fail("C37:record-shape", "record must have exactly one string member 'event' (found " + std::to_string(n_ev) + ")");
    if (n_lv != 1 || lv->t != JVal::Str) c.fail("C37:record-shape", "record must have exactly one string member 'level' (found " + std::to_string(n_lv) + ")");
    if (n_fl > 1) c.fail("C37:record-shape", "record has more than one 'fields' member");
    if (ev->s != event) c.fail("C37:event-mismatch", "event decodes to " + show(ev->s) + " but " + show(event) + " was logged");
    if (lv->s != level_name(level)) c.fail("C37:level-mismatch", "level decodes to " + show(lv->s) + " for level " + level_name(level));

    std::vector<std::pair<std::string, std::string>> got;
    if (fl) {
        if (fl->t != JVal::Obj) c.fail("C37:record-shape", "'fields' is not an object");
        for (std::size_t i = 0; i < fl->keys.size(); ++i) {
            if (fl->vals[i].t != JVal::Str) c.fail("C37:fields-mismatch", "field " + show(fl->keys[i]) + " is not a JSON string");
            got.emplace_back(fl->keys[i], fl->vals[i].s);
        }
    }
    if (got.size() != fields.size())
        c.fail("C37:fields-mismatch", "decoded " + std::to_string(got.size()) + " fields, logged " + std::to_string(fields.size()));
    for (std::size_t i = 0; i < got.size(); ++i) {
        if (got[i].first != fields[i].first)
            c.fail("C37:fields-mismatch", "field #" + std::to_string(i) + " name decodes to " + show(got[i].first) + " but " + show(fields[i].first) + " was logged");
        if (got[i].second != fields[i].second)
            c.fail("C37:fields-mismatch", "field #" + std::to_string(i) + " (" + show(fields[i].first, 16) + ") value decodes to " + show(got[i].second) +
                                              " but " + show(fields[i].second) + " was logged");
    }
}
}  // namespace

void run_case(Ctx& c) {
    const Tape& t = c.tape;
    unsigned level = t.h(0) % 3;
    std::string event = gen_string(t.h(1), t.h(2), t.h16(3) | (static_cast<std::uint64_t>(t.h(5)) << 16));
    c.note("level=%s event[%s]=%s", level_name(level), kClsName[cls_of(t.h(1))], show(event).c_str());

    StructuredLogger::FieldList fields;
    std::size_t nf = std::min<std::size_t>(t.nrec(), 8);
    bool dup = false, has_long = cls_of(t.h(1)) == kLong, has_empty = event.empty();
    Classes in_event, in_name, in_value;
    in_event.scan(event);
    for (std::size_t i = 0; i < nf; ++i) {
        Rec r = t.r(i);
        std::string name;
        if ((r.a(6) & 0x80) && i > 0) {
            name = fields[(r.a(6) & 0x7F) % i].first;
            dup = true;
        } else {
            name = gen_string(r.op(), r.a(0), r.a(1) | (static_cast<std::uint64_t>(i) << 8) | (static_cast<std::uint64_t>(r.a(6)) << 16));
            if (cls_of(r.op()) == kLong) has_long = true;
        }
        std::string value = gen_string(r.a(2), r.a(3), r.a16(4) | (static_cast<std::uint64_t>(i) << 24) | (1ull << 32));
        if (cls_of(r.a(2)) == kLong) has_long = true;
        if (name.empty() || value.empty()) has_empty = true;
        for (std::size_t j = 0; j < fields.size(); ++j) if (fields[j].first == name) dup = true;
        in_name.scan(name);
        in_value.scan(value);
        c.note("f%zu[%s/%s]=%s:%s", i, kClsName[cls_of(r.op())], kClsName[cls_of(r.a(2))], show(name, 24).c_str(), show(value, 24).c_str());
        fields.emplace_back(std::move(name), std::move(value));
    }

    check_record(c, level, event, fields);

    if (in_event.any()) c.nt("escape_or_multibyte_in_event");
    if (in_name.any()) c.nt("escape_or_multibyte_in_field_name");
    if (in_value.any()) c.nt("escape_or_multibyte_in_field_value");
    Classes all;
    all.scan(event);
    for (auto& f : fields) { all.scan(f.first); all.scan(f.second); }
    if (all.quote_bs) c.label("has_quote_or_backslash");
    if (all.short_ctl) c.label("has_BS_FF_LF_CR_TAB");
    if (all.other_c0) c.label("has_other_C0_control");
    if (all.nul) c.label("has_NUL");
    if (all.del) c.label("has_DEL");
    if (all.slash) c.label("has_slash");
    if (all.two) c.label("has_2byte_utf8");
    if (all.three) c.label("has_3byte_utf8");
    if (all.four) c.label("has_4byte_utf8");
    if (all.lsps) c.label("has_U+2028_or_2029");
    if (has_long) c.label("long_64k_codepoints");
    if (has_empty) c.label("empty_string");
    if (dup) c.label("duplicate_field_name");
    if (fields.empty()) c.label("fields_0");
    else if (fields.size() == 1) c.label("fields_1");
    else c.label("fields_2_to_8");
    c.label(level == 0 ? "level_info" : level == 1 ? "level_warning" : "level_error");
}

std::string run_once(Ctx& c) {
    // measurement aid (sensitivity runs): lets the generated cases be timed without the exhaustive part catching the defect first
    if (std::getenv("VERIF_C37_SKIP_ONCE")) return "exhaustive part SKIPPED (VERIF_C37_SKIP_ONCE set)";
    // 1. the oracle decoder must itself be strict: accept/reject vectors written from RFC 8259 / RFC 3629
    struct V { const char* text; bool ok; const char* decoded; };
    const V vec[] = {
        {"\"a\"", true, "a"},
        {"\"\\u0041\\n\\/\\\"\\\\\"", true, "A\n/\"\\"},
        {"\"\\ud83d\\ude00\"", true, "\xF0\x9F\x98\x80"},
        {"\"\\u00e9\"", true, "\xC3\xA9"},
        {"\"\xE2\x80\xA8\"", true, "\xE2\x80\xA8"},
        {"\"\x7F\"", true, "\x7F"},
        {" \"a\" ", true, "a"},
        {"\"a", false, ""},
        {"\"a\nb\"", false, ""},
        {"\"a\tb\"", false, ""},
        {"\"\x01\"", false, ""},
        {"\"\\x41\"", false, ""},
        {"\"\\u41\"", false, ""},
        {"\"\\u004\"", false, ""},
        {"\"\\u00g1\"", false, ""},
        {"\"\\ud800\"", false, ""},
        {"\"\\udc00\"", false, ""},
        {"\"\\ud800\\u0041\"", false, ""},
        {"\"\xC0\x80\"", false, ""},
        {"\"\xE0\x80\x80\"", false, ""},
        {"\"\xED\xA0\x80\"", false, ""},
        {"\"\xF4\x90\x80\x80\"", false, ""},
        {"\"\xC3\"", false, ""},
        {"\"\x80\"", false, ""},
        {"\"a\" x", false, ""},
        {"\"a\"\"b\"", false, ""},
        {"\"\\\"", false, ""},
        {"'a'", false, ""},
    };
    for (auto& v : vec) {
        JVal j;
        std::string err;
        bool ok = parse_json(v.text, j, err);
        if (ok != v.ok) c.fail("C37:harness-error", std::string("oracle decoder self-check: ") + show(v.text) + (v.ok ? " rejected: " + err : " accepted"));
        if (ok && (j.t != JVal::Str || j.s != v.decoded)) c.fail("C37:harness-error", std::string("oracle decoder self-check: ") + show(v.text) + " decoded to " + show(j.s));
    }
    {
        JVal j;
        std::string err;
        if (!parse_json("{\"a\":\"1\",\"a\":\"2\",\"b\":{\"x\":[1,-2.5e+3,true,false,null]}}", j, err) || j.keys.size() != 3 ||
            j.vals[0].s != "1" || j.keys[1] != "a" || j.vals[1].s != "2")
            c.fail("C37:harness-error", "oracle decoder self-check: duplicate members not preserved: " + err);
        for (const char* bad : {"{\"a\":\"1\",}", "{\"a\" \"1\"}", "{a:1}", "{\"a\":01}", "[1,]", "{\"a\":\"1\"}}", "{\"a\":\"1\"}\n{\"b\":\"2\"}", ""}) {
            if (parse_json(bad, j, err)) c.fail("C37:harness-error", std::string("oracle decoder self-check accepted ") + show(bad));
        }
    }

    // 2. exhaustive: every single byte 0x00..0x7F and every edge code point, alone and embedded, in each of the three positions
    std::vector<std::string> atoms;
    for (unsigned b = 0; b < 0x80; ++b) atoms.emplace_back(1, static_cast<char>(b));
    for (std::uint32_t cp : kEdges2) { std::string s; put_utf8(s, cp); atoms.push_back(s); }
    for (std::uint32_t cp : kEdges3) { std::string s; put_utf8(s, cp); atoms.push_back(s); }
    for (std::uint32_t cp : kEdges4) { std::string s; put_utf8(s, cp); atoms.push_back(s); }
    for (std::size_t i = 0; i < kSnipN; ++i) atoms.emplace_back(kSnips[i]);
    std::size_t n = 0;
    for (auto& a : atoms) {
        for (int form = 0; form < 3; ++form) {
            std::string s = form == 0 ? a : form == 1 ? "x" + a + "y" : a + a;
            for (unsigned pos = 0; pos < 3; ++pos) {
                c.desc.clear();
                c.note("exhaustive atom=%s form=%d pos=%u", show(a).c_str(), form, pos);
                StructuredLogger::FieldList f;
                if (pos == 1) f.emplace_back(s, "v");
                if (pos == 2) { f.emplace_back("k", s); f.emplace_back("k2", s); }
                check_record(c, n % 3, pos == 0 ? s : std::string("ev"), f);
                ++n;
            }
        }
    }
    c.desc.clear();
    return "oracle decoder self-check (28 string vectors, 9 document vectors) passed; exhaustive part: every byte 0x00..0x7F, every UTF-8 "
           "length-edge code point and every injection snippet, alone / embedded / doubled, as event, field name and field value (" +
           std::to_string(n) + " records) decoded back exactly";
}

std::vector<std::vector<std::uint8_t>> seed_tapes() {
    std::vector<std::vector<std::uint8_t>> v;
    v.push_back({0, 0, 5, 1, 0, 0});                                                     // plain event, no fields
    v.push_back({1, 7, 20, 2, 0, 0, /*f0*/ 1, 3, 1, 2, 9, 1, 0, 0, /*f1*/ 8, 4, 2, 8, 6, 3, 0, 0x80});  // mix + dup name
    v.push_back({2, 8, 6, 9, 9, 0, /*f0*/ 4, 2, 1, 6, 3, 1, 1, 0});
    return v;
}
}  // namespace verif
