// C10 — Shamir sharing reconstructs from any threshold subset and rejects bad sets
// Oracles: an independent GF(2^8) (refs.hpp, bitwise carry-less multiply) + Lagrange interpolation written here;
// exhaustive field axioms over the repository's table-driven gf_add/gf_mul/gf_div (through shim_shamir);
// exhaustive coefficient enumeration through the interposed random_device for t = 2, 3 ("no information" clause).
#define VERIF_FUZZ_TARGET 1
#include "verif.hpp"
#include "refs.hpp"
#include "vclock.hpp"
#include "shim_shamir.hpp"

#include "ephemeralnet/crypto/Shamir.hpp"

#include <algorithm>
#include <cerrno>
#include <csignal>
#include <cstdlib>
#include <ctime>
#include <memory>
#include <poll.h>
#include <sys/wait.h>
#include <unistd.h>

extern "C" void __sanitizer_set_death_callback(void (*callback)(void));

namespace verif {
const PropertyInfo kInfo = {
    "C10", 14, 6, 6,
    "tape -> n from boundary table {1,2,3,4,5,8,16,32,64,128,200,253,254,255} or uniform 1..24 or uniform 1..255; t from {1,2,3,4,n,n-1,n-2,(n+1)/2} or uniform 1..n; "
    "32-byte secret: 01..20 / random / zero / 0xFF / one-hot / sparse; split coefficients from the interposed random_device (seeded stream, or all-zero, "
    "or top coefficient zero, or all 0xFF); n = 255 is split in a forked child under a 2 s CPU-time budget (0.3 s once a timeout was seen in this process; wall-clock time is never judged) and an RSS cap. "
    "Each record is one combine query on that split: exactly t distinct shares (first/last/random subset, any order); t..n distinct shares; "
    "fewer than t; a repeated index inside the first t (twin values: both all-zero / exact copy / own value / zero / random); a repeated index beyond the first t; "
    "a share with index 0; out-of-domain parameters (t = 0, n = 0, t > n) which must only not crash. "
    "Oracle: n shares, indices distinct and non-zero, all shares on one polynomial of degree < t with constant term = secret (independent Lagrange "
    "interpolation over the reference field); t distinct shares -> secret; fewer than t, or exactly t with a repeated index -> std::invalid_argument; "
    "repeat inside the first t with surplus shares present, repeat beyond the first t, or surplus of distinct shares -> invalid_argument or the true secret. "
    "With stream coefficients the first t-1 shares must not reproduce the secret (>= 12 of 32 bytes). Once per process (exhaustive): all field axioms over Shamir.cpp's gf_add/gf_mul/gf_div; for t=2 and t=3 every coefficient choice is enumerated "
    "through the random_device queue and the map coefficients -> t-1 share values must be a bijection; independently of how draws are consumed, sampled splits (64 expected hits per combination) must hit every combination of t-1 share values. "
    "Non-trivial: n >= 200, or t = n, or a malformed set was submitted. Distinct = hash of the decoded case."};

namespace {
using ephemeralnet::crypto::Shamir;
using ephemeralnet::crypto::ShamirShare;
using Secret = std::array<std::uint8_t, 32>;

const char* const kSig255 = "C10:split-255-nonterminating";
const char* const kSigZeroTwins = "C10:duplicate-zero-shares-accepted";

// ------------------------------------------------------------------------------------------------------
// oracle field
// ------------------------------------------------------------------------------------------------------
struct Field {
    std::vector<std::uint8_t> m = std::vector<std::uint8_t>(65536);
    std::uint8_t inv[256] = {};
    std::string origin;
    std::uint8_t mul(std::uint8_t a, std::uint8_t b) const { return m[(a << 8) | b]; }
    std::uint8_t div(std::uint8_t a, std::uint8_t b) const { return mul(a, inv[b]); }
};

// All field axioms over the implementation's operations, exhaustively.  "" = holds.
// Zero and one are *found* (not assumed to be 0 and 1).
std::string implementation_field_axioms(std::uint64_t& evals) {
    static std::uint8_t A[256][256], M[256][256];
    for (unsigned a = 0; a < 256; ++a)
        for (unsigned b = 0; b < 256; ++b) {
            A[a][b] = shim_shamir::gf_add(static_cast<std::uint8_t>(a), static_cast<std::uint8_t>(b));
            M[a][b] = shim_shamir::gf_mul(static_cast<std::uint8_t>(a), static_cast<std::uint8_t>(b));
        }
    evals += 2 * 65536;
    auto s3 = [](const char* what, unsigned a, unsigned b, unsigned c) {
        char buf[160];
        std::snprintf(buf, sizeof buf, "%s at (0x%02x, 0x%02x, 0x%02x)", what, a, b, c);
        return std::string(buf);
    };
    int zero = -1, one = -1;
    for (unsigned z = 0; z < 256 && zero < 0; ++z) {
        bool ok = true;
        for (unsigned a = 0; a < 256 && ok; ++a) ok = A[z][a] == a && A[a][z] == a;
        if (ok) zero = static_cast<int>(z);
    }
    if (zero < 0) return "no additive identity";
    for (unsigned e = 0; e < 256 && one < 0; ++e) {
        bool ok = true;
        for (unsigned a = 0; a < 256 && ok; ++a) ok = M[e][a] == a && M[a][e] == a;
        if (ok) one = static_cast<int>(e);
    }
    if (one < 0) return "no multiplicative identity";
    if (one == zero) return "0 == 1";
    for (unsigned a = 0; a < 256; ++a) {
        bool addinv = false, mulinv = false;
        for (unsigned b = 0; b < 256; ++b) {
            if (A[a][b] != A[b][a]) return s3("addition not commutative", a, b, 0);
            if (M[a][b] != M[b][a]) return s3("multiplication not commutative", a, b, 0);
            if (A[a][b] == zero) addinv = true;
            if (M[a][b] == one) mulinv = true;
        }
        if (!addinv) return s3("no additive inverse", a, 0, 0);
        if (static_cast<int>(a) != zero && !mulinv) return s3("no multiplicative inverse", a, 0, 0);
    }
    evals += 4 * 65536;
    for (unsigned a = 0; a < 256; ++a)
        for (unsigned b = 0; b < 256; ++b) {
            const std::uint8_t ab_s = A[a][b], ab_m = M[a][b];
            for (unsigned c = 0; c < 256; ++c) {
                if (A[ab_s][c] != A[a][A[b][c]]) return s3("addition not associative", a, b, c);
                if (M[ab_m][c] != M[a][M[b][c]]) return s3("multiplication not associative", a, b, c);
                if (M[a][A[b][c]] != A[ab_m][M[a][c]]) return s3("multiplication does not distribute over addition", a, b, c);
            }
        }
    evals += 3ull * 256 * 256 * 256;
    // division is the inverse of multiplication; division by zero must not crash (any C++ exception is fine)
    for (unsigned a = 0; a < 256; ++a)
        for (unsigned b = 0; b < 256; ++b) {
            if (static_cast<int>(b) == zero) {
                try { (void)shim_shamir::gf_div(static_cast<std::uint8_t>(a), static_cast<std::uint8_t>(b)); } catch (const std::exception&) {}
                continue;
            }
            std::uint8_t q;
            try {
                q = shim_shamir::gf_div(static_cast<std::uint8_t>(a), static_cast<std::uint8_t>(b));
            } catch (const std::exception& e) {
                return s3("division by a non-zero element throws", a, b, 0);
            }
            if (M[q][b] != a) return s3("(a / b) * b != a", a, b, q);
        }
    evals += 65536;
    return "";
}

struct FieldState {
    Field f;
    bool impl_matches_reference = false;
    unsigned mismatches = 0;
    std::string axioms;  // "" = the implementation's operations form a field
    std::uint64_t axiom_evals = 0;
    bool axioms_checked = false;
};

FieldState& field_state() {
    static std::unique_ptr<FieldState> st;
    if (st) return *st;
    st = std::make_unique<FieldState>();
    Field ref;
    for (unsigned a = 0; a < 256; ++a)
        for (unsigned b = 0; b < 256; ++b) ref.m[(a << 8) | b] = refs::gf_mul(static_cast<std::uint8_t>(a), static_cast<std::uint8_t>(b));
    bool add_is_xor = true;
    Field impl;
    for (unsigned a = 0; a < 256; ++a)
        for (unsigned b = 0; b < 256; ++b) {
            impl.m[(a << 8) | b] = shim_shamir::gf_mul(static_cast<std::uint8_t>(a), static_cast<std::uint8_t>(b));
            if (impl.m[(a << 8) | b] != ref.m[(a << 8) | b]) st->mismatches++;
            if (shim_shamir::gf_add(static_cast<std::uint8_t>(a), static_cast<std::uint8_t>(b)) != (a ^ b)) add_is_xor = false;
        }
    st->impl_matches_reference = st->mismatches == 0 && add_is_xor;
    st->f = ref;
    st->f.origin = "reference GF(2^8) mod 0x11D";
    if (!st->impl_matches_reference) {
        // A different but genuine field (XOR addition, 0 and 1 as identities) is still within the property:
        // then the oracle computes in that field (its axioms having been checked exhaustively, not assumed).
        st->axioms = implementation_field_axioms(st->axiom_evals);
        st->axioms_checked = true;
        bool ident = true;
        for (unsigned a = 0; a < 256; ++a) ident = ident && impl.m[(1 << 8) | a] == a && impl.m[a] == 0;
        if (st->axioms.empty() && add_is_xor && ident) {
            st->f = impl;
            st->f.origin = "implementation's own field (differs from the 0x11D reference in " + std::to_string(st->mismatches) +
                           " products but satisfies every field axiom exhaustively)";
        }
    }
    for (unsigned a = 1; a < 256; ++a)
        for (unsigned b = 1; b < 256; ++b)
            if (st->f.mul(static_cast<std::uint8_t>(a), static_cast<std::uint8_t>(b)) == 1) st->f.inv[a] = static_cast<std::uint8_t>(b);
    return *st;
}

// Lagrange weights of the points xs at x (x not in xs, xs distinct): w_i = prod_{j != i} (x - x_j) / (x_i - x_j)
struct Lagrange {
    const Field& f;
    std::vector<std::uint8_t> xs, den;
    Lagrange(const Field& field, std::vector<std::uint8_t> points) : f(field), xs(std::move(points)), den(xs.size(), 1) {
        for (std::size_t i = 0; i < xs.size(); ++i)
            for (std::size_t j = 0; j < xs.size(); ++j)
                if (i != j) den[i] = f.mul(den[i], static_cast<std::uint8_t>(xs[i] ^ xs[j]));
    }
    std::vector<std::uint8_t> weights(std::uint8_t x) const {
        std::uint8_t all = 1;
        for (auto xj : xs) all = f.mul(all, static_cast<std::uint8_t>(x ^ xj));
        std::vector<std::uint8_t> w(xs.size());
        for (std::size_t i = 0; i < xs.size(); ++i) w[i] = f.div(all, f.mul(static_cast<std::uint8_t>(x ^ xs[i]), den[i]));
        return w;
    }
};

// ------------------------------------------------------------------------------------------------------
// calling the code under test
// ------------------------------------------------------------------------------------------------------
struct SplitOut {
    enum Kind { Ok, InvalidArg, OtherExc, UnknownExc, Timeout, Runaway, Crashed, Starved } kind = Ok;
    double cpu = 0;   // CPU seconds the forked child was seen to have used
    std::vector<ShamirShare> shares;
    std::string what;
    double secs = 0;
    std::size_t peak_rss_mb = 0;
};

SplitOut split_direct(const Secret& s, unsigned t, unsigned n) {
    SplitOut o;
    try {
        o.shares = Shamir::split(s, static_cast<std::uint8_t>(t), static_cast<std::uint8_t>(n));
    } catch (const std::invalid_argument& e) {
        o.kind = SplitOut::InvalidArg;
        o.what = e.what();
    } catch (const std::exception& e) {
        o.kind = SplitOut::OtherExc;
        o.what = e.what();
    } catch (const CaseFailure&) {
        throw;
    } catch (...) {
        o.kind = SplitOut::UnknownExc;
    }
    return o;
}

double mono_now() {  // real time for the liveness timeout only; never feeds a generated value
    timespec ts{};
    clock_gettime(CLOCK_MONOTONIC, &ts);
    return static_cast<double>(ts.tv_sec) + 1e-9 * static_cast<double>(ts.tv_nsec);
}

std::size_t rss_mb(pid_t pid) {
    char path[64];
    std::snprintf(path, sizeof path, "/proc/%d/statm", static_cast<int>(pid));
    FILE* f = std::fopen(path, "r");
    if (!f) return 0;
    unsigned long size = 0, res = 0;
    int got = std::fscanf(f, "%lu %lu", &size, &res);
    std::fclose(f);
    if (got != 2) return 0;
    return static_cast<std::size_t>(res) * static_cast<std::size_t>(sysconf(_SC_PAGESIZE)) >> 20;
}

// CPU seconds (user + system) the child has consumed so far: a split that does not terminate burns CPU, a child that is
// merely starved on a loaded machine does not -- wall-clock time is never the verdict.
double cpu_secs(pid_t pid) {
    char path[64];
    std::snprintf(path, sizeof path, "/proc/%d/stat", static_cast<int>(pid));
    FILE* f = std::fopen(path, "r");
    if (!f) return 0;
    char buf[1024];
    std::size_t n = std::fread(buf, 1, sizeof buf - 1, f);
    std::fclose(f);
    buf[n] = 0;
    const char* p = std::strrchr(buf, ')');   // the command name may contain blanks
    if (!p) return 0;
    unsigned long ut = 0, st = 0;
    // after ")": state ppid pgrp session tty tpgid flags minflt cminflt majflt cmajflt utime stime
    if (std::sscanf(p + 1, " %*c %*d %*d %*d %*d %*d %*u %*u %*u %*u %*u %lu %lu", &ut, &st) != 2) return 0;
    return static_cast<double>(ut + st) / static_cast<double>(sysconf(_SC_CLK_TCK));
}

constexpr double kSplitWallCap = 120.0;      // a child that got less than the CPU budget within this wall time: inconclusive
constexpr double kSplitTimeoutFirst = 2.0;   // >= 10^2 x the slowest legitimate split (n = t = 254: ~10 ms under ASan)
constexpr double kSplitTimeoutAgain = 0.3;   // after a timeout was already seen in this process (shrinking re-runs)
constexpr std::size_t kRssCapMb = 1536;      // a legitimate result is 255 x 33 bytes
bool g_seen_split_timeout = false;

// Runs split in a forked child so that a non-terminating / memory-eating split is observed, not suffered.
SplitOut split_forked(const Secret& s, unsigned t, unsigned n, double limit_override = 0) {
    SplitOut o;
    int fds[2];
    if (pipe(fds) != 0) throw CaseFailure{"C10:harness-error", "pipe() failed"};
    std::fflush(nullptr);
    const double t0 = mono_now();
    pid_t pid = fork();
    if (pid < 0) {
        close(fds[0]);
        close(fds[1]);
        throw CaseFailure{"C10:harness-error", "fork() failed"};
    }
    if (pid == 0) {
        close(fds[0]);
        alarm(0);
        std::signal(SIGALRM, SIG_DFL);
        std::signal(SIGABRT, SIG_DFL);
        __sanitizer_set_death_callback(nullptr);
        SplitOut r = split_direct(s, t, n);
        std::vector<std::uint8_t> buf;
        buf.push_back(static_cast<std::uint8_t>(r.kind));
        if (r.kind == SplitOut::Ok) {
            std::size_t cnt = std::min<std::size_t>(r.shares.size(), 4096);
            buf.push_back(static_cast<std::uint8_t>(cnt & 0xFF));
            buf.push_back(static_cast<std::uint8_t>(cnt >> 8));
            for (std::size_t i = 0; i < cnt; ++i) {
                buf.push_back(r.shares[i].index);
                buf.insert(buf.end(), r.shares[i].value.begin(), r.shares[i].value.end());
            }
        } else {
            std::string w = r.what.substr(0, 200);
            buf.push_back(static_cast<std::uint8_t>(w.size()));
            buf.push_back(0);
            buf.insert(buf.end(), w.begin(), w.end());
        }
        const std::uint8_t* p = buf.data();
        std::size_t left = buf.size();
        while (left) {
            ssize_t w = ::write(fds[1], p, left);
            if (w <= 0) break;
            p += w;
            left -= static_cast<std::size_t>(w);
        }
        _exit(0);
    }
    close(fds[1]);
    const double limit = limit_override > 0 ? limit_override : (g_seen_split_timeout ? kSplitTimeoutAgain : kSplitTimeoutFirst);
    std::vector<std::uint8_t> got;
    bool eof = false;
    while (!eof) {
        pollfd pf{fds[0], POLLIN, 0};
        int pr = poll(&pf, 1, 10);
        if (pr > 0) {
            std::uint8_t tmp[8192];
            ssize_t r = ::read(fds[0], tmp, sizeof tmp);
            if (r > 0) got.insert(got.end(), tmp, tmp + r);
            else if (r == 0) eof = true;
        }
        o.secs = mono_now() - t0;
        if (eof) break;
        std::size_t rss = rss_mb(pid);
        o.peak_rss_mb = std::max(o.peak_rss_mb, rss);
        if (rss > kRssCapMb) { o.kind = SplitOut::Runaway; break; }
        const double cpu = cpu_secs(pid);
        o.cpu = std::max(o.cpu, cpu);
        if (cpu > limit) { o.kind = SplitOut::Timeout; o.secs = cpu; break; }
        if (o.secs > kSplitWallCap) { o.kind = SplitOut::Starved; break; }
    }
    close(fds[0]);
    if (!eof) kill(pid, SIGKILL);
    int status = 0;
    while (waitpid(pid, &status, 0) < 0 && errno == EINTR) {}
    if (!eof) {
        if (o.kind != SplitOut::Starved) g_seen_split_timeout = true;
        return o;
    }
    if (!(WIFEXITED(status) && WEXITSTATUS(status) == 0) || got.size() < 3) {
        o.kind = SplitOut::Crashed;
        o.what = WIFSIGNALED(status) ? "child killed by signal " + std::to_string(WTERMSIG(status))
                                     : "child exit status " + std::to_string(WIFEXITED(status) ? WEXITSTATUS(status) : -1);
        return o;
    }
    o.kind = static_cast<SplitOut::Kind>(got[0]);
    std::size_t cnt = got[1] | (got[2] << 8);
    if (o.kind == SplitOut::Ok) {
        for (std::size_t i = 0; i < cnt && 3 + (i + 1) * 33 <= got.size(); ++i) {
            ShamirShare sh;
            sh.index = got[3 + i * 33];
            std::copy_n(got.begin() + static_cast<std::ptrdiff_t>(3 + i * 33 + 1), 32, sh.value.begin());
            o.shares.push_back(sh);
        }
    } else {
        o.what.assign(got.begin() + 3, got.begin() + static_cast<std::ptrdiff_t>(std::min(got.size(), 3 + cnt)));
    }
    return o;
}

struct CombineOut {
    enum Kind { Value, InvalidArg, OtherExc, UnknownExc } kind = Value;
    Secret v{};
    std::string what;
};

CombineOut do_combine(const std::vector<ShamirShare>& set, unsigned t) {
    CombineOut o;
    try {
        o.v = Shamir::combine(set, static_cast<std::uint8_t>(t));
    } catch (const std::invalid_argument& e) {
        o.kind = CombineOut::InvalidArg;
        o.what = e.what();
    } catch (const std::exception& e) {
        o.kind = CombineOut::OtherExc;
        o.what = e.what();
    } catch (const CaseFailure&) {
        throw;
    } catch (...) {
        o.kind = CombineOut::UnknownExc;
    }
    return o;
}

std::string show(const CombineOut& o) {
    switch (o.kind) {
        case CombineOut::Value: return "returned " + hex(o.v, 32);
        case CombineOut::InvalidArg: return "threw std::invalid_argument(\"" + o.what + "\")";
        case CombineOut::OtherExc: return "threw another std::exception(\"" + o.what + "\")";
        default: return "threw a non-std exception";
    }
}

std::string show_set(const std::vector<ShamirShare>& set, std::size_t max = 10) {
    std::string s = "[";
    for (std::size_t i = 0; i < set.size() && i < max; ++i) {
        bool z = std::all_of(set[i].value.begin(), set[i].value.end(), [](std::uint8_t b) { return b == 0; });
        s += (i ? " " : "") + std::to_string(set[i].index) + ":" + (z ? std::string("00*32") : hex(set[i].value, 4));
    }
    if (set.size() > max) s += " ..(" + std::to_string(set.size()) + " shares)";
    return s + "]";
}

bool all_zero(const ShamirShare& s) {
    return std::all_of(s.value.begin(), s.value.end(), [](std::uint8_t b) { return b == 0; });
}

// ------------------------------------------------------------------------------------------------------
// tape decoding
// ------------------------------------------------------------------------------------------------------
const unsigned kNTable[16] = {1, 2, 3, 4, 255, 254, 5, 8, 253, 16, 200, 255, 32, 254, 128, 64};

unsigned decode_n(std::uint8_t sel, std::uint8_t v) {
    if (sel & 0x80) return kNTable[sel & 15];
    if (sel & 0x40) return 1 + v % 24u;
    return 1 + v % 255u;
}

unsigned decode_t(std::uint8_t sel, std::uint8_t v, unsigned n) {
    if (sel & 0x80) {
        long cand[8] = {1, static_cast<long>(n), 2, static_cast<long>(n) - 1, 3, (static_cast<long>(n) + 1) / 2, static_cast<long>(n) - 2, 4};
        long x = cand[sel & 7];
        return static_cast<unsigned>(std::clamp<long>(x, 1, static_cast<long>(n)));
    }
    return 1 + v % n;
}

// k distinct positions in [0, n)
std::vector<unsigned> pick(Prng& p, unsigned n, unsigned k, unsigned mode) {
    std::vector<unsigned> idx(n);
    for (unsigned i = 0; i < n; ++i) idx[i] = i;
    switch (mode & 3) {
        case 0: break;                                      // the first k, ascending
        case 1: std::reverse(idx.begin(), idx.end()); break;  // the last k, descending
        default:
            for (unsigned i = 0; i < k && i + 1 < n; ++i) std::swap(idx[i], idx[i + static_cast<unsigned>(p.below(n - i))]);
            break;
    }
    idx.resize(k);
    if ((mode & 3) == 3) std::sort(idx.begin(), idx.end(), std::greater<unsigned>());
    return idx;
}

const char* const kSelName[4] = {"first", "last-desc", "random", "random-desc"};

// ------------------------------------------------------------------------------------------------------
// "no information": exhaustive coefficient enumeration through the interposed random_device
// ------------------------------------------------------------------------------------------------------
// A draw is served with the coefficient byte replicated in all four bytes, so the byte reaches the coefficient
// whether the implementation truncates, masks, shifts or scales the 32-bit draw.
inline std::uint32_t rep(unsigned byte) { return byte * 0x01010101u; }

std::vector<ShamirShare> split_with_draws(const Secret& s, unsigned t, unsigned n, const std::vector<std::uint32_t>& draws, std::uint64_t* used = nullptr) {
    vclock::rng_clear_queue();
    for (auto v : draws) vclock::rng_push(v);
    const std::uint64_t d0 = vclock::rng_draws();
    auto r = Shamir::split(s, static_cast<std::uint8_t>(t), static_cast<std::uint8_t>(n));
    if (used) *used = vclock::rng_draws() - d0;
    vclock::rng_clear_queue();
    return r;
}

// Which secret-byte position does each random_device draw feed?  Found by observation (change one draw, see which
// byte positions of the shares change), so the enumeration does not assume a draw order.  false = the split does not
// use one draw per coefficient in a way this enumeration understands (then nothing is asserted).
bool map_draws(unsigned t, unsigned n, std::vector<std::vector<unsigned>>& feeds, std::string& why) {
    const unsigned draws = 32 * (t - 1);
    Secret zero{};
    std::uint64_t used = 0;
    std::vector<std::uint32_t> q(draws, 0u);
    auto base = split_with_draws(zero, t, n, q, &used);
    if (used != draws) { why = "split consumed " + std::to_string(used) + " random_device draws, expected " + std::to_string(draws); return false; }
    if (base.size() != n) { why = "split returned " + std::to_string(base.size()) + " shares"; return false; }
    feeds.assign(32, {});
    for (unsigned d = 0; d < draws; ++d) {
        q[d] = 0xA5A5A5A5u;
        auto r = split_with_draws(zero, t, n, q, &used);
        q[d] = 0;
        if (r.size() != base.size() || used != draws) { why = "share count / draw count varies with the draws"; return false; }
        unsigned touched = 0, which = 0;
        for (unsigned b = 0; b < 32; ++b) {
            bool diff = false;
            for (std::size_t i = 0; i < r.size(); ++i) diff = diff || r[i].value[b] != base[i].value[b];
            if (diff) { ++touched; which = b; }
        }
        if (touched > 1) { why = "draw " + std::to_string(d) + " feeds " + std::to_string(touched) + " byte positions"; return false; }
        if (touched == 1) feeds[which].push_back(d);
    }
    for (unsigned b = 0; b < 32; ++b)
        if (feeds[b].size() > t - 1) { why = "byte position " + std::to_string(b) + " is fed by " + std::to_string(feeds[b].size()) + " draws"; return false; }
    return true;
}

// For each listed secret byte value and every set of t-1 share indices out of 1..n: the map (coefficient bytes -> the
// t-1 share values) is a bijection, i.e. t-1 shares are equally consistent with every secret.  All 256^(t-1)
// coefficient choices are enumerated (32 per split call, one per byte position).  Returns a sentence for the evidence;
// fails the case on a collision.
std::string enumerate_no_information(Ctx& c, unsigned t, unsigned n, const std::vector<unsigned>& secret_values, std::uint64_t& splits) {
    const unsigned draws = 32 * (t - 1);
    const unsigned inputs = t == 2 ? 256u : 65536u;
    const unsigned nsets = t == 2 ? n : n * (n - 1) / 2;
    vclock::rng_seed(0xC10);
    std::vector<std::vector<unsigned>> feeds;
    std::string why;
    if (!map_draws(t, n, feeds, why)) return "coefficient enumeration for t=" + std::to_string(t) + " not applicable (" + why + "); ";
    splits += draws + 1;
    std::vector<std::uint32_t> seen;  // [index set][share values] -> input id + 1
    std::vector<std::uint32_t> q(draws);
    for (unsigned sv : secret_values) {
        Secret secret;
        secret.fill(static_cast<std::uint8_t>(sv));
        seen.assign(static_cast<std::size_t>(nsets) * inputs, 0);
        for (unsigned k = 0; k < inputs / 32; ++k) {
            std::fill(q.begin(), q.end(), 0u);
            for (unsigned b = 0; b < 32; ++b) {
                const unsigned in = 32 * k + b;
                if (!feeds[b].empty()) q[feeds[b][0]] = rep(t == 2 ? in : in >> 8);
                if (feeds[b].size() > 1) q[feeds[b][1]] = rep(in & 0xFF);
            }
            auto shares = split_with_draws(secret, t, n, q);
            ++splits;
            if (shares.size() != n) return "coefficient enumeration for t=" + std::to_string(t) + " not applicable (share count varies); ";
            for (unsigned b = 0; b < 32; ++b) {
                const unsigned in = 32 * k + b;
                auto hit = [&](std::size_t slot, unsigned i, unsigned j) {
                    if (!seen[slot]) { seen[slot] = in + 1; return; }
                    const unsigned other = seen[slot] - 1;
                    char buf[400];
                    if (t == 2)
                        std::snprintf(buf, sizeof buf, "threshold 2, secret byte 0x%02x: coefficient bytes 0x%02x and 0x%02x give the same value 0x%02x for share index %u (of n=%u)", sv, other,
                                      in, shares[i].value[b], shares[i].index, n);
                    else
                        std::snprintf(buf, sizeof buf, "threshold 3, secret byte 0x%02x: coefficient bytes (0x%02x,0x%02x) and (0x%02x,0x%02x) give the same values (0x%02x,0x%02x) for share indices %u and %u (of n=%u)",
                                      sv, other >> 8, other & 0xFF, in >> 8, in & 0xFF, shares[i].value[b], shares[j].value[b], shares[i].index, shares[j].index, n);
                    c.note("coefficient enumeration t=%u n=%u secret_byte=0x%02x (draws feeding byte position %u: %zu)", t, n, sv, b, feeds[b].size());
                    c.fail("C10:share-values-not-uniform", std::string(buf) + ": over all coefficient choices the t-1 share values are not uniformly distributed, so fewer than t shares carry information about the secret");
                };
                if (t == 2) {
                    for (unsigned i = 0; i < n; ++i) hit(static_cast<std::size_t>(i) * inputs + shares[i].value[b], i, i);
                } else {
                    unsigned set = 0;
                    for (unsigned i = 0; i < n; ++i)
                        for (unsigned j = i + 1; j < n; ++j, ++set)
                            hit(static_cast<std::size_t>(set) * inputs + ((shares[i].value[b] << 8) | shares[j].value[b]), i, j);
                }
            }
        }
    }
    return "t=" + std::to_string(t) + ", n=" + std::to_string(n) + ": all " + std::to_string(inputs) + " coefficient choices x " + std::to_string(secret_values.size()) + " secret byte values x every " +
           (t == 2 ? "share index" : "pair of share indices") + " give pairwise distinct share values (bijection); ";
}
// Sampling counterpart of the enumeration, independent of how split() consumes its random draws (rejection sampling,
// wider draws, redraws ...): for a fixed secret byte the t-1 share values must be uniform over all 256^(t-1) combinations.
// The interposed random_device is a deterministic uniform stream, so the outcome is a pure function of the code.  Only an
// EMPTY bin is judged: with >= 32 expected hits per bin an empty bin has probability < e^-32 under uniformity (x 65536 bins: < 1e-9).
std::string sample_no_information(Ctx& c, unsigned t, unsigned n, unsigned secret_value, std::uint64_t& splits) {
    vclock::rng_clear_queue();
    vclock::rng_seed(0xC10A + t * 131 + secret_value);
    const std::size_t bins = t == 2 ? 256u : 65536u;
    const std::size_t nsplits = bins * (t == 2 ? 64 : 32) / 32;   // 32 byte positions per split; 64 (t=2) / 32 (t=3) expected hits per bin
    Secret secret;
    secret.fill(static_cast<std::uint8_t>(secret_value));
    std::vector<std::uint32_t> hist(bins, 0);
    for (std::size_t k = 0; k < nsplits; ++k) {
        auto shares = Shamir::split(secret, static_cast<std::uint8_t>(t), static_cast<std::uint8_t>(n));
        ++splits;
        if (shares.size() != n) return "sampling for t=" + std::to_string(t) + " not applicable (share count varies); ";
        for (unsigned b = 0; b < 32; ++b) hist[t == 2 ? shares[0].value[b] : ((shares[0].value[b] << 8) | shares[1].value[b])]++;
    }
    for (std::size_t v = 0; v < bins; ++v) {
        if (hist[v] == 0) {
            char buf[300];
            if (t == 2) std::snprintf(buf, sizeof buf, "threshold 2, secret byte 0x%02x: over %zu splits the first share never takes the value 0x%02zx (%u expected)", secret_value, nsplits, v, 64u);
            else std::snprintf(buf, sizeof buf, "threshold 3, secret byte 0x%02x: over %zu splits the first two shares never take the values (0x%02zx,0x%02zx) (%u expected)", secret_value, nsplits, v >> 8, v & 0xFF, 32u);
            c.note("share-value sampling t=%u n=%u secret_byte=0x%02x", t, n, secret_value);
            c.fail("C10:share-values-not-uniform", std::string(buf) + ": t-1 shares exclude some secrets, so fewer than t shares carry information about the secret");
        }
    }
    return "t=" + std::to_string(t) + ": " + std::to_string(nsplits * 32) + " sampled share " + (t == 2 ? "values" : "value pairs") + " for secret byte " + std::to_string(secret_value) + " hit every one of the " +
           std::to_string(bins) + " combinations; ";
}
}  // namespace

// ------------------------------------------------------------------------------------------------------
void run_case(Ctx& c) {
    const Tape& t = c.tape;
    const Field& F = field_state().f;

    unsigned n = decode_n(t.h(0), t.h(1));
    if (n == 255 && c.is_known(kSig255)) {
        c.count_excluded(kSig255);
        n = 254;
    }
    const unsigned th = decode_t(t.h(2), t.h(3), n);

    Secret secret{};
    const unsigned skind = t.h(8) % 6;
    {
        Prng sp(t.h32(4) ^ 0x5EC2E7);
        switch (skind) {
            case 0: for (unsigned b = 0; b < 32; ++b) secret[b] = static_cast<std::uint8_t>(b + 1); break;
            case 1: sp.fill(secret.data(), 32); break;
            case 2: break;
            case 3: secret.fill(0xFF); break;
            case 4: secret[sp.below(32)] = static_cast<std::uint8_t>(1 + sp.below(255)); break;
            case 5: for (auto& b : secret) b = (sp.byte() & 3) ? 0 : sp.byte(); break;
        }
    }
    static const char* const kSecretName[6] = {"01..20", "random", "zero", "ff", "one-hot", "sparse"};

    // split coefficients: a pure function of the tape
    const unsigned cmode = t.h(13) < 160 ? 0 : 1 + (t.h(13) - 160) % 3;
    static const char* const kCoefName[4] = {"stream", "all-zero", "top-zero", "all-ff"};
    vclock::rng_seed(0xC0EF0000ull ^ t.h32(9));
    if (cmode != 0) {
        Prng cp(t.h32(9) ^ 0xC0EF);
        for (unsigned b = 0; b < 32; ++b)
            for (unsigned d = 1; d < th; ++d) {
                std::uint32_t v = cmode == 1 ? 0u : cmode == 3 ? 0xFFFFFFFFu : (d + 1 == th ? 0u : static_cast<std::uint32_t>(cp.next()));
                vclock::rng_push(v);
            }
    }
    c.note("n=%u t=%u secret=%s/%08x coef=%s/%08x", n, th, kSecretName[skind], t.h32(4), kCoefName[cmode], t.h32(9));

    // ---- split -------------------------------------------------------------------------------------
    SplitOut so = n == 255 ? split_forked(secret, th, n) : split_direct(secret, th, n);
    if (n == 255 && so.kind == SplitOut::Timeout) {
        // Is it the split or the forked child as such?  In a long-lived sanitizer process a forked child can burn seconds
        // of CPU on its own (copy-on-write faults, allocator quarantine).  A reference child that splits into 254 shares
        // (which cannot reach the n = 255 path) calibrates the budget; a split that really does not terminate exceeds any budget.
        Secret ref_secret{};
        SplitOut ref = split_forked(ref_secret, std::min(th, 254u), 254, 120.0);   // same threshold, one share fewer
        c.count("reference_child_cpu_ms", static_cast<std::uint64_t>(ref.cpu * 1000));
        if (ref.kind == SplitOut::Ok && ref.cpu > 0.05) {
            c.label("forked_child_slow_in_this_process");
            SplitOut again = split_forked(secret, th, n, 10.0 * ref.cpu + 2.0);
            if (again.kind != SplitOut::Timeout) c.label("split_timeout_was_the_environment");
            so = again;
        } else if (ref.kind != SplitOut::Ok) {
            c.label("reference_child_failed_inconclusive");
            vclock::rng_clear_queue();
            return;
        }
        // A split that does not terminate does so every time.  A forked child of a sanitizer process can also get stuck
        // by accident (it inherits whatever locks other threads of the runtime held at fork time and spins on them):
        // only a timeout that repeats twice more, each in a fresh child, is reported.
        for (int attempt = 0; attempt < 2 && so.kind == SplitOut::Timeout; ++attempt) {
            SplitOut again = split_forked(secret, th, n, std::max(2.0, 10.0 * ref.cpu + 2.0));
            if (again.kind != SplitOut::Timeout) { c.label("split_timeout_not_reproduced"); so = again; }
        }
    }
    vclock::rng_clear_queue();
    if (n == 255) c.label("split_in_child");
    switch (so.kind) {
        case SplitOut::Ok: break;
        case SplitOut::Timeout:
        case SplitOut::Runaway: {
            char buf[256];
            std::snprintf(buf, sizeof buf, "split(secret, t=%u, n=%u) did not return: %s after %.2f s of CPU time in a forked child (resident set reached %zu MB; a result is %u x 33 bytes)",
                          th, n, so.kind == SplitOut::Timeout ? "killed at the timeout" : "killed at the memory cap", so.secs, so.peak_rss_mb, n);
            c.fail(kSig255, buf);
        }
        case SplitOut::Starved: c.label("split_child_starved_inconclusive"); return;
        case SplitOut::Crashed: c.fail("C10:split-crash", "split(t=" + std::to_string(th) + ", n=" + std::to_string(n) + ") in a forked child: " + so.what);
        default: c.fail("C10:split-throws", "split with valid parameters t=" + std::to_string(th) + " n=" + std::to_string(n) + " threw: " + so.what);
    }
    const auto& shares = so.shares;
    if (shares.size() != n) c.fail("C10:split-wrong-share-count", "split(t=" + std::to_string(th) + ", n=" + std::to_string(n) + ") returned " + std::to_string(shares.size()) + " shares");
    {
        bool seen[256] = {};
        for (auto& s : shares) {
            if (s.index == 0) c.fail("C10:split-share-index-zero", "split produced a share with index 0");
            if (seen[s.index]) c.fail("C10:split-duplicate-share-index", "split produced two shares with index " + std::to_string(s.index));
            seen[s.index] = true;
        }
    }
    // all n shares on one polynomial of degree < t whose constant term is the secret (independent interpolation)
    {
        std::vector<std::uint8_t> xs(th);
        for (unsigned i = 0; i < th; ++i) xs[i] = shares[i].index;
        Lagrange L(F, xs);
        auto w0 = L.weights(0);
        for (unsigned b = 0; b < 32; ++b) {
            std::uint8_t acc = 0;
            for (unsigned i = 0; i < th; ++i) acc ^= F.mul(w0[i], shares[i].value[b]);
            if (acc != secret[b]) {
                char buf[200];
                std::snprintf(buf, sizeof buf, "byte %u: the polynomial through the first t=%u shares has constant term 0x%02x, secret byte is 0x%02x (%s)", b, th, acc, secret[b], F.origin.c_str());
                c.fail("C10:polynomial-constant-term-not-secret", buf);
            }
        }
        for (unsigned k = th; k < n; ++k) {
            auto w = L.weights(shares[k].index);
            for (unsigned b = 0; b < 32; ++b) {
                std::uint8_t acc = 0;
                for (unsigned i = 0; i < th; ++i) acc ^= F.mul(w[i], shares[i].value[b]);
                if (acc != shares[k].value[b]) {
                    char buf[200];
                    std::snprintf(buf, sizeof buf, "byte %u: share index %u has value 0x%02x but the degree<%u polynomial through the first t shares gives 0x%02x", b, shares[k].index, shares[k].value[b], th, acc);
                    c.fail("C10:shares-not-on-one-polynomial", buf);
                }
            }
        }
    }

    // "fewer than t shares carry no information", per split: with coefficients drawn from the (pseudo-)random stream the
    // polynomial through t-1 shares hits a secret byte with probability 1/256; hitting >= 12 of the 32 bytes (p < 1e-20)
    // means t-1 shares reconstruct the secret, i.e. the polynomial's degree is deficient.  Not applied when this case
    // deliberately serves zero coefficients.
    if (th >= 2 && cmode == 0) {
        std::vector<std::uint8_t> xs(th - 1);
        for (unsigned i = 0; i + 1 < th; ++i) xs[i] = shares[i].index;
        Lagrange L(F, xs);
        auto w0 = L.weights(0);
        unsigned hits = 0;
        for (unsigned b = 0; b < 32; ++b) {
            std::uint8_t acc = 0;
            for (unsigned i = 0; i + 1 < th; ++i) acc ^= F.mul(w0[i], shares[i].value[b]);
            hits += acc == secret[b];
        }
        if (hits >= 12)
            c.fail("C10:fewer-than-t-shares-reveal-secret", "interpolating only the first t-1=" + std::to_string(th - 1) + " shares of a " + std::to_string(th) + "-of-" + std::to_string(n) +
                                                                " split reproduces " + std::to_string(hits) + " of the 32 secret bytes (expected about 0.125): the sharing polynomial has degree < t-1");
    }

    // ---- combine queries ----------------------------------------------------------------------------
    bool malformed = false;
    std::uint64_t work = 0;
    const std::size_t nq = std::max<std::size_t>(1, t.nrec());
    for (std::size_t qi = 0; qi < nq; ++qi) {
        if (work > 260000) { c.note("(+%zu queries skipped: work budget)", nq - qi); break; }
        work += static_cast<std::uint64_t>(th) * th + 2000;
        Rec r = t.r(qi);
        Prng qp(r.seed() ^ 0xC10C10);
        unsigned op = r.op() % 8;
        const unsigned sel = r.a(4) & 3;
        if (op == 7) op = 0;
        if (op == 1 && th == n) op = 0;
        if (op == 3 && th < 2) op = 0;

        auto take = [&](const std::vector<unsigned>& pos) {
            std::vector<ShamirShare> v;
            v.reserve(pos.size() + 4);
            for (auto p : pos) v.push_back(shares[p]);
            return v;
        };
        auto unexpected_exception = [&](const char* what, const std::vector<ShamirShare>& set, const CombineOut& o) {
            c.fail(o.kind == CombineOut::UnknownExc ? "C10:combine-nonstd-exception" : "C10:combine-wrong-exception-type",
                   std::string(what) + ": combine(" + show_set(set) + ", t=" + std::to_string(th) + ") " + show(o));
        };

        switch (op) {
            case 0: {  // exactly t distinct shares, any order
                auto set = take(pick(qp, n, th, sel));
                c.note("q%zu:valid(%s)", qi, kSelName[sel]);
                auto o = do_combine(set, th);
                if (o.kind != CombineOut::Value)
                    c.fail("C10:reconstruct-throws", "t=" + std::to_string(th) + " distinct shares " + show_set(set) + ": combine " + show(o));
                if (o.v != secret)
                    c.fail("C10:reconstruct-wrong-secret", "t=" + std::to_string(th) + " of n=" + std::to_string(n) + " distinct shares " + show_set(set) +
                                                               ": combine " + show(o) + ", secret is " + hex(secret, 32));
                c.label("q_valid");
                if (sel >= 2) c.label("q_valid_random_subset");
                break;
            }
            case 1: {  // between t+1 and n distinct shares
                unsigned k = th + 1 + static_cast<unsigned>(r.a16(0) % (n - th));
                auto set = take(pick(qp, n, k, sel));
                c.note("q%zu:surplus(%u,%s)", qi, k, kSelName[sel]);
                auto o = do_combine(set, th);
                if (o.kind == CombineOut::OtherExc || o.kind == CombineOut::UnknownExc) unexpected_exception("surplus of distinct shares", set, o);
                if (o.kind == CombineOut::Value && o.v != secret)
                    c.fail("C10:reconstruct-wrong-secret", std::to_string(k) + " distinct shares (t=" + std::to_string(th) + ") " + show_set(set) + ": combine " + show(o) +
                                                               ", secret is " + hex(secret, 32));
                c.label(o.kind == CombineOut::Value ? "q_surplus_value" : "q_surplus_rejected");
                break;
            }
            case 2: {  // fewer than t
                unsigned k = static_cast<unsigned>(r.a16(0) % th);
                if (r.a(2) & 1) k = th - 1;
                auto set = take(pick(qp, n, k, sel));
                c.note("q%zu:too-few(%u,%s)", qi, k, kSelName[sel]);
                auto o = do_combine(set, th);
                if (o.kind == CombineOut::Value)
                    c.fail("C10:too-few-shares-accepted", std::to_string(k) + " shares for threshold " + std::to_string(th) + ": combine " + show(o));
                if (o.kind != CombineOut::InvalidArg) unexpected_exception("fewer than t shares", set, o);
                malformed = true;
                c.label("q_too_few");
                if (k + 1 == th) c.label("q_too_few_t_minus_1");
                break;
            }
            case 3: {  // repeated index inside the first t
                unsigned extras = (r.a(3) & 1) ? std::min(n - th, 1 + (r.a(3) >> 1) % 3u) : 0;
                auto set = take(pick(qp, n, th + extras, sel));
                unsigned i = r.a(0) % th;
                unsigned j = (i + 1 + r.a(1) % (th - 1)) % th;
                unsigned variant = r.a(2) % 5;
                if (variant == 0 && c.is_known(kSigZeroTwins)) {
                    c.count_excluded(kSigZeroTwins);
                    variant = 3;
                }
                static const char* const kVar[5] = {"both-zero", "exact-copy", "own-value", "dup-zero", "dup-random"};
                switch (variant) {
                    case 0: set[i].value.fill(0); set[j] = set[i]; break;
                    case 1: set[j] = set[i]; break;
                    case 2: set[j].index = set[i].index; break;
                    case 3: set[j].index = set[i].index; set[j].value.fill(0); break;
                    case 4: set[j].index = set[i].index; qp.fill(set[j].value.data(), 32); break;
                }
                if (all_zero(set[i]) && all_zero(set[j]) && c.is_known(kSigZeroTwins)) {
                    c.count_excluded(kSigZeroTwins);
                    set[j].value[0] = 1;
                }
                const bool zero_twins = all_zero(set[i]) && all_zero(set[j]);
                c.note("q%zu:dup-inside(%s,pos %u<-%u,+%u,%s)", qi, kVar[variant], j, i, extras, kSelName[sel]);
                auto o = do_combine(set, th);
                // With exactly t shares every share is used, so the repeat must be rejected.  With surplus shares the
                // weaker reading applies (which t are used is the implementation's choice): reject, or the true secret.
                if (o.kind == CombineOut::Value && (extras == 0 || o.v != secret)) {
                    c.fail(zero_twins ? kSigZeroTwins : "C10:duplicate-index-accepted",
                           "index " + std::to_string(set[i].index) + " appears at positions " + std::to_string(i) + " and " + std::to_string(j) + " of the t=" + std::to_string(th) +
                               " shares used " + show_set(set) + ": combine " + show(o) + " instead of throwing std::invalid_argument (secret is " + hex(secret, 32) + ")");
                }
                if (o.kind != CombineOut::InvalidArg) unexpected_exception("repeated index among the t shares used", set, o);
                malformed = true;
                c.label("q_dup_inside");
                if (zero_twins) c.label("q_dup_inside_zero_twins");
                break;
            }
            case 4: {  // repeated index beyond the first t: invalid_argument or the true secret
                unsigned extras = std::min(n - th, static_cast<unsigned>(r.a(0) % 3));
                auto set = take(pick(qp, n, th + extras, sel));
                unsigned i = r.a(1) % th;
                ShamirShare dup = set[i];
                unsigned variant = r.a(2) % 3;
                if (variant == 1) dup.value.fill(0);
                if (variant == 2) qp.fill(dup.value.data(), 32);
                unsigned at = th + static_cast<unsigned>(r.a(3) % (extras + 1));
                set.insert(set.begin() + at, dup);
                c.note("q%zu:dup-beyond(v%u,pos %u<-%u,+%u,%s)", qi, variant, at, i, extras, kSelName[sel]);
                auto o = do_combine(set, th);
                if (o.kind == CombineOut::OtherExc || o.kind == CombineOut::UnknownExc) unexpected_exception("repeated index beyond the first t", set, o);
                if (o.kind == CombineOut::Value && o.v != secret)
                    c.fail("C10:dup-beyond-wrong-secret", "repeat of index " + std::to_string(dup.index) + " at position " + std::to_string(at) + " (t=" + std::to_string(th) + ") " +
                                                              show_set(set) + ": combine " + show(o) + ", secret is " + hex(secret, 32));
                malformed = true;
                c.label(o.kind == CombineOut::Value ? "q_dup_beyond_value" : "q_dup_beyond_rejected");
                break;
            }
            case 5: {  // index 0: only "no crash, no hang"
                auto set = take(pick(qp, n, th, sel));
                ShamirShare z{};
                unsigned variant = r.a(1) % 3;
                if (variant == 1) qp.fill(z.value.data(), 32);
                if (variant == 2) z.value = secret;
                bool inside = (r.a(2) & 1) == 0;
                unsigned at = inside ? r.a(0) % th : th;
                if (inside) set[at] = z; else set.push_back(z);
                c.note("q%zu:index0(v%u,pos %u,%s)", qi, variant, at, kSelName[sel]);
                auto o = do_combine(set, th);
                malformed = true;
                c.label(o.kind == CombineOut::Value ? "q_index0_value" : "q_index0_rejected");
                break;
            }
            case 6: {  // out-of-domain parameters: only "no crash, no hang"
                unsigned variant = r.a(0) % 4;
                unsigned n2 = std::min(n, 254u);
                c.note("q%zu:ood(v%u)", qi, variant);
                if (variant == 0) (void)split_direct(secret, 0, n2);
                if (variant == 1) (void)split_direct(secret, th, 0);
                if (variant == 2) (void)split_direct(secret, std::min(255u, n2 + 1 + r.a(1) % 8u), n2);
                if (variant == 3) (void)do_combine(take(pick(qp, n, th, sel)), 0);
                vclock::rng_clear_queue();
                c.label("q_out_of_domain");
                break;
            }
        }
    }

    if (n >= 200) c.nt("n_ge_200");
    if (th == n) c.nt("t_eq_n");
    if (malformed) c.nt("malformed_set");
    if (n == 255) c.label("n_255");
    if (n == 254) c.label("n_254");
    if (n <= 3) c.label("n_le_3");
    if (th == 1) c.label("t_1");
    if (th >= 128) c.label("t_ge_128");
    if (cmode != 0) c.label("coef_special");
    if (skind == 2) c.label("secret_zero");
}

std::string run_once(Ctx& c) {
    const bool timing = std::getenv("VERIF_C10_TIMING") != nullptr;
    double tm = mono_now();
    auto lap = [&](const char* what) {
        if (timing) std::fprintf(stderr, "C10 run_once: %s %.2f s\n", what, mono_now() - tm);
        tm = mono_now();
    };
    auto s = refs::self_check();
    if (!s.empty()) c.fail("C10:harness-error", "reference self-check failed: " + s);
    std::string note = "reference self-checks passed; ";
    lap("reference self-check");

    // ---- the share arithmetic is a genuine field (exhaustive) ----------------------------------------
    FieldState& fs = field_state();
    if (!fs.axioms_checked) {
        fs.axioms = implementation_field_axioms(fs.axiom_evals);
        fs.axioms_checked = true;
    }
    if (!fs.axioms.empty()) {
        c.note("exhaustive field axioms over Shamir.cpp gf_add/gf_mul/gf_div");
        c.fail("C10:field-axiom-violated", "Shamir.cpp GF(256) arithmetic is not a field: " + fs.axioms +
                                               (fs.mismatches ? " (" + std::to_string(fs.mismatches) + " of 65536 products differ from the GF(2^8)/0x11D reference)" : std::string()));
    }
    note += "Shamir.cpp gf_add/gf_mul/gf_div satisfy every field axiom exhaustively (" + std::to_string(fs.axiom_evals) + " evaluations: identities, inverses, commutativity on 256^2 pairs; "
            "associativity of + and *, distributivity on 256^3 triples; (a/b)*b=a) and " +
            (fs.impl_matches_reference ? "agree with the bitwise GF(2^8)/0x11D reference on all 65536 products; " : "DIFFER from the 0x11D reference (oracle uses: " + fs.f.origin + "); ");

    lap("field axioms");
    // ---- fewer than t shares carry no information (exhaustive for t = 2, 3) ------------------------------
    unsigned nE = 254;
    if (!c.is_known(kSig255)) {
        Secret z{};
        vclock::rng_seed(1);
        auto probe = split_forked(z, 2, 255);
        if (probe.kind == SplitOut::Ok && probe.shares.size() == 255) nE = 255;
    }
    lap("n=255 probe");
    std::uint64_t splits = 0;
    std::vector<unsigned> all256(256), some32, few;
    for (unsigned i = 0; i < 256; ++i) all256[i] = i;
    for (unsigned i = 0; i < 32; ++i) some32.push_back((i * 0x4D + 0x11) & 0xFF);  // 32 distinct values incl. high-bit ones
    few = {0x00, 0x01, 0x80, 0xFF};
    note += enumerate_no_information(c, 2, 16, all256, splits);
    lap("enumeration t=2 n=16");
    note += enumerate_no_information(c, 2, nE, some32, splits);
    lap("enumeration t=2 n=max");
    note += enumerate_no_information(c, 3, 6, few, splits);
    lap("enumeration t=3");
    note += sample_no_information(c, 2, 3, 0x00, splits);
    note += sample_no_information(c, 2, 5, 0xA7, splits);
    note += sample_no_information(c, 3, 4, 0x5C, splits);
    lap("sampling");
    note += std::to_string(splits) + " enumerated / sampled splits";
    vclock::rng_clear_queue();
    return note;
}

std::vector<std::vector<std::uint8_t>> seed_tapes() {
    auto mk = [](std::initializer_list<int> l) {
        std::vector<std::uint8_t> v;
        for (int x : l) v.push_back(static_cast<std::uint8_t>(x));
        return v;
    };
    return {
        // the repository's own test: 5-of-8, random secret, a valid and a surplus query
        mk({0x87, 0, 0x00, 4, 1, 2, 3, 4, 1, 9, 9, 9, 9, 0, /*q*/ 0, 0, 0, 0, 0, 2, /*q*/ 1, 1, 0, 0, 0, 2}),
        // 2-of-3 with a both-zero twin pair inside the first t
        mk({0x82, 0, 0x82, 0, 0, 0, 0, 0, 0, 0, 0, 0, 0, 0, /*q*/ 3, 0, 0, 0, 0, 0}),
        // t = n = 254, too-few and duplicate-beyond queries
        mk({0x85, 0, 0x81, 0, 7, 7, 7, 7, 1, 1, 2, 3, 4, 0, /*q*/ 2, 0, 0, 1, 0, 2, /*q*/ 4, 1, 5, 2, 0, 3}),
        // n = 255
        mk({0x84, 0, 0x82, 0, 0, 0, 0, 0, 0, 0, 0, 0, 0, 0}),
        // index 0 and out-of-domain parameters on a small split with all-zero coefficients
        mk({0x83, 0, 0x84, 0, 1, 1, 1, 1, 4, 0, 0, 0, 0, 160, /*q*/ 5, 0, 1, 0, 0, 0, /*q*/ 6, 2, 3, 0, 0, 0}),
    };
}
}  // namespace verif
