// C33 — STUN responses are parsed exactly and safely
// Oracle: a reference RFC 5389 TLV walker + MAPPED-ADDRESS / XOR-MAPPED-ADDRESS decoders written
// here from the RFC (self-checked against the RFC 5769 sample responses), applied to the final
// datagram bytes; the generator's own construction is the expectation for canonical responses.
#define VERIF_FUZZ_TARGET 1
#include "verif.hpp"
#include "shim_nat.hpp"

#include <arpa/inet.h>
#include <cstdlib>
#include <memory>

namespace verif {
const PropertyInfo kInfo = {
    "C33", 16, 8, 8,
    "tape -> datagram <= 512 B in an exact-size heap buffer (ASan guards both ends) + 12-byte transaction id. "
    "mode raw (1/4): the record bytes are the datagram (optionally with type forced to 0x0101 / length made exact); "
    "mode structured: type {0x0101, 0x0111, 0x0001, one bit off, random}, magic cookie {right, wrong}, declared length "
    "{exact, the (padded or unpadded) end of an earlier attribute, -4, -k, +4, +k, arbitrary}, datagram {as built, truncated, trailing bytes}, transaction id {match, one bit off, random}, "
    "one record per attribute: unknown comprehension-optional with length 0..23 and random padding, MAPPED-ADDRESS, XOR-MAPPED-ADDRESS "
    "(IPv4/IPv6, boundary ports/addresses), conflicting address, bad family, truncated / over-long address value, "
    "comprehension-required unknown, unpadded odd-length attribute. "
    "Oracle: a value is returned only if len>=20, type==0x0101, 20+declared<=len and id matches; the (family,address,port) "
    "is one of the reference walker's decodes of an address attribute lying inside the declared message; canonical responses "
    "(strict RFC form, every address attribute carrying the same address) must yield exactly that address. "
    "Non-trivial: a well-placed address attribute exists, or a length field disagrees with the datagram. Distinct = hash of the decoded case."};

namespace {
using Txid = std::array<std::uint8_t, 12>;
const std::uint8_t kCookie[4] = {0x21, 0x12, 0xA4, 0x42};  // RFC 5389 section 6

struct Addr {
    int family = 0;  // 1 = IPv4, 2 = IPv6
    std::array<std::uint8_t, 16> a{};
    std::uint16_t port = 0;
    bool same(const Addr& o) const {
        if (family != o.family || port != o.port) return false;
        std::size_t n = family == 1 ? 4 : 16;
        return std::equal(a.begin(), a.begin() + n, o.a.begin());
    }
    std::string str() const {
        std::string s = family == 1 ? "v4:" : "v6:";
        s += hex(a.data(), family == 1 ? 4 : 16, 16);
        s += "/" + std::to_string(port);
        return s;
    }
};

std::uint16_t be16(const std::uint8_t* p) { return static_cast<std::uint16_t>((p[0] << 8) | p[1]); }

// ---- reference decoder (RFC 5389 sections 6, 15, 15.1, 15.2) -----------------------------------
struct RefView {
    bool eligible = false;
    const char* why = "";
    std::vector<Addr> strict;    // exact-length address attributes inside the declared message
    std::vector<Addr> lenient;   // same, but the value is longer than the family needs (tolerated, section 7)
    std::vector<Addr> overrun;   // attribute header inside the message, value runs past its declared end
    bool malformed_tail = false; // the walk stopped on an attribute that does not fit
    std::size_t attrs = 0;
};

// decode one address attribute value v[0..len) ; xored selects XOR-MAPPED-ADDRESS; cookie = the 4 bytes to use
bool decode_addr(const std::uint8_t* v, std::size_t len, bool xored, const std::uint8_t* cookie, const std::uint8_t* txid,
                 Addr& out, bool& exact_len) {
    if (len < 4) return false;
    out = Addr{};
    out.family = v[1];
    out.port = be16(v + 2);
    if (xored) out.port ^= static_cast<std::uint16_t>((cookie[0] << 8) | cookie[1]);
    if (out.family == 1) {
        if (len < 8) return false;
        for (int i = 0; i < 4; ++i) out.a[i] = static_cast<std::uint8_t>(v[4 + i] ^ (xored ? cookie[i] : 0));
        exact_len = len == 8;
        return true;
    }
    if (out.family == 2) {
        if (len < 20) return false;
        for (int i = 0; i < 16; ++i) {
            std::uint8_t k = 0;
            if (xored) k = i < 4 ? cookie[i] : txid[i - 4];
            out.a[i] = static_cast<std::uint8_t>(v[4 + i] ^ k);
        }
        exact_len = len == 20;
        return true;
    }
    return false;
}

RefView ref_parse(const std::uint8_t* d, std::size_t n, const Txid& txid) {
    RefView r;
    if (n < 20) { r.why = "shorter than a STUN header"; return r; }
    std::uint16_t type = be16(d);
    std::size_t mlen = be16(d + 2);
    if (type != 0x0101) { r.why = "type is not Binding Success (0x0101)"; return r; }
    if (20 + mlen > n) { r.why = "declared length exceeds the datagram"; return r; }
    if (!std::equal(txid.begin(), txid.end(), d + 8)) { r.why = "transaction id differs"; return r; }
    r.eligible = true;
    const std::size_t end = 20 + mlen;
    std::size_t pos = 20;
    while (pos + 4 <= end) {
        std::uint16_t at = be16(d + pos);
        std::size_t al = be16(d + pos + 2);
        bool is_addr = at == 0x0001 || at == 0x0020;
        bool fits = pos + 4 + al <= end;
        if (!fits) {
            r.malformed_tail = true;
            if (is_addr && pos + 4 + al <= n) {
                Addr a; bool ex = false;
                if (decode_addr(d + pos + 4, al, at == 0x0020, kCookie, d + 8, a, ex)) r.overrun.push_back(a);
                if (decode_addr(d + pos + 4, al, at == 0x0020, d + 4, d + 8, a, ex)) r.overrun.push_back(a);
            }
            break;
        }
        ++r.attrs;
        if (is_addr) {
            Addr a; bool ex = false;
            if (decode_addr(d + pos + 4, al, at == 0x0020, kCookie, d + 8, a, ex)) (ex ? r.strict : r.lenient).push_back(a);
            // a decoder that XORs with the cookie bytes carried in the message is equivalent on RFC 5389 messages
            if (decode_addr(d + pos + 4, al, at == 0x0020, d + 4, d + 8, a, ex)) (ex ? r.strict : r.lenient).push_back(a);
        }
        pos += 4 + ((al + 3) & ~static_cast<std::size_t>(3));
    }
    if (pos < end && !r.malformed_tail) r.malformed_tail = true;  // 1..3 stray bytes
    return r;
}

std::string v4_text(const std::uint8_t* a) {
    return std::to_string(a[0]) + "." + std::to_string(a[1]) + "." + std::to_string(a[2]) + "." + std::to_string(a[3]);
}

// ---- encoder used by the structured generator (independent of the decoder above only in direction) ----
void put16(std::vector<std::uint8_t>& b, std::uint16_t v) { b.push_back(v >> 8); b.push_back(v & 0xFF); }

void put_attr(std::vector<std::uint8_t>& b, std::uint16_t type, const std::vector<std::uint8_t>& value, bool pad, Prng& prng, bool zero_pad) {
    put16(b, type);
    put16(b, static_cast<std::uint16_t>(value.size()));
    b.insert(b.end(), value.begin(), value.end());
    if (pad) while (b.size() % 4) b.push_back(zero_pad ? 0 : prng.byte());
}

std::vector<std::uint8_t> addr_value(const Addr& a, bool xored, const std::uint8_t* cookie, const Txid& txid, std::uint8_t reserved) {
    std::vector<std::uint8_t> v;
    v.push_back(reserved);
    v.push_back(static_cast<std::uint8_t>(a.family));
    std::uint16_t p = a.port;
    if (xored) p ^= static_cast<std::uint16_t>((cookie[0] << 8) | cookie[1]);
    put16(v, p);
    std::size_t n = a.family == 2 ? 16 : 4;
    for (std::size_t i = 0; i < n; ++i) {
        std::uint8_t k = 0;
        if (xored) k = i < 4 ? cookie[i] : txid[i - 4];
        v.push_back(static_cast<std::uint8_t>(a.a[i] ^ k));
    }
    return v;
}

Addr gen_addr(Prng& prng, unsigned fam_sel) {
    static const std::uint16_t ports[] = {0, 1, 0x2112, 0xA442, 0xFFFF, 3478, 0x8055};
    Addr a;
    a.family = (fam_sel & 1) ? 2 : 1;
    unsigned ps = static_cast<unsigned>(prng.below(12));
    a.port = ps < 7 ? ports[ps] : static_cast<std::uint16_t>(prng.next());
    unsigned as = static_cast<unsigned>(prng.below(8));
    std::size_t n = a.family == 1 ? 4 : 16;
    switch (as) {
        case 0: break;                                                     // all zero
        case 1: for (std::size_t i = 0; i < n; ++i) a.a[i] = 0xFF; break;
        case 2: for (std::size_t i = 0; i < n; ++i) a.a[i] = kCookie[i % 4]; break;  // XORs to zero on the wire
        case 3: if (a.family == 2) { a.a[10] = a.a[11] = 0xFF; a.a[12] = 192; a.a[14] = 2; a.a[15] = 1; } else { a.a[0] = 192; a.a[2] = 2; a.a[3] = 1; } break;
        default: prng.fill(a.a.data(), n); break;
    }
    return a;
}

struct Built {
    std::vector<std::uint8_t> d;
    Txid txid{};
    bool canonical = false;
    Addr expect;
};

const std::uint8_t kKindTable[16] = {0, 1, 2, 0, 1, 2, 0, 2, 1, 3, 4, 5, 6, 7, 2, 1};

Built build_structured(Ctx& c, bool allow_dev) {
    const Tape& t = c.tape;
    Built b;
    Prng prng(t.h32(12) ^ 0xC33);
    Txid msg_txid;
    prng.fill(msg_txid.data(), 12);
    if ((t.h32(12) & 0xFF) == 0) msg_txid.fill(0);
    Addr case_addr = gen_addr(prng, t.h(12) >> 1);
    bool canonical = true;

    std::uint16_t type = 0x0101;
    std::uint8_t cookie[4] = {0x21, 0x12, 0xA4, 0x42};
    if (allow_dev) {
        switch (t.h(3) % 16) {
            case 12: type = 0x0111; break;
            case 13: type = 0x0001; break;
            case 14: type = 0x0101 ^ static_cast<std::uint16_t>(1u << (t.h(4) % 16)); break;
            case 15: type = static_cast<std::uint16_t>(t.h(4) | (t.h(5) << 8)); break;
            default: break;
        }
        if (t.h(11) % 4 == 3) { prng.fill(cookie, 4); cookie[0] ^= 0x80; }
    }
    if (type != 0x0101) { canonical = false; c.label("type_not_success"); }
    if (std::memcmp(cookie, kCookie, 4) != 0) { canonical = false; c.label("wrong_cookie"); }
    c.note("type=%04x cookie=%s", type, hex(cookie, 4, 4).c_str());

    // attributes
    std::vector<std::uint8_t> body;
    bool any_addr = false;
    std::string attrs;
    std::vector<std::pair<std::size_t, std::size_t>> attr_ends;  // [start, padded end) of every attribute written
    std::size_t attr_start_mark = 0;
    for (std::size_t i = 0; i < t.nrec() && i < 24; ++i) {
        Rec r = t.r(i);
        Prng ap(r.seed());
        if (body.size() > attr_start_mark) attr_ends.push_back({attr_start_mark, body.size()});
        attr_start_mark = body.size();
        unsigned kind = kKindTable[r.op() % 16];
        bool zero_pad = r.a(3) & 1;
        switch (kind) {
            case 0: {  // comprehension-optional unknown attribute, odd lengths, padding of any value
                std::uint16_t ty = static_cast<std::uint16_t>(0x8000 | (r.a16(1) & 0x7FFF));
                if (ty == 0x8020 || ty == 0x8028) ty = 0x8022;
                auto v = ap.bytes(r.a(0) % 24);
                put_attr(body, ty, v, true, ap, zero_pad);
                attrs += "opt" + std::to_string(v.size()) + ",";
                if (v.size() % 4) c.label("padded_attr");
                break;
            }
            case 1:
            case 2: {
                auto v = addr_value(case_addr, kind == 2, cookie, msg_txid, 0);
                put_attr(body, kind == 2 ? 0x0020 : 0x0001, v, true, ap, zero_pad);
                attrs += kind == 2 ? "XOR," : "MAPPED,";
                any_addr = true;
                break;
            }
            case 3: {  // an address attribute carrying a different address
                Addr other = gen_addr(ap, r.a(1) >> 1);
                bool x = r.a(1) & 1;
                auto v = addr_value(other, x, cookie, msg_txid, r.a(2));
                put_attr(body, x ? 0x0020 : 0x0001, v, true, ap, zero_pad);
                attrs += std::string(x ? "XOR" : "MAPPED") + "-other(" + other.str() + "),";
                canonical = false;
                break;
            }
            case 4: {  // family other than 1 / 2
                static const std::uint8_t fams[] = {0, 3, 4, 6, 0x10, 0x81, 0xFF, 0x02 ^ 0x80};
                Addr other = case_addr;
                bool x = r.a(1) & 1;
                auto v = addr_value(other, x, cookie, msg_txid, 0);
                v[1] = fams[r.a(0) % 8];
                if (r.a(1) & 2) { v[1] = static_cast<std::uint8_t>(other.family == 1 ? 2 : 1); }  // family says the other size
                put_attr(body, x ? 0x0020 : 0x0001, v, true, ap, zero_pad);
                attrs += "addr-family" + std::to_string(v[1]) + ",";
                canonical = false;
                break;
            }
            case 5: {  // truncated / over-long address value
                static const std::uint8_t lens[] = {0, 1, 3, 4, 5, 7, 9, 12, 19, 21, 24, 2};
                bool x = r.a(1) & 1;
                auto v = addr_value(r.a(1) & 2 ? gen_addr(ap, r.a(1) >> 2) : case_addr, x, cookie, msg_txid, 0);
                std::size_t want = lens[r.a(0) % 12];
                while (v.size() < want) v.push_back(ap.byte());
                v.resize(want);
                put_attr(body, x ? 0x0020 : 0x0001, v, true, ap, zero_pad);
                attrs += "addr-len" + std::to_string(want) + ",";
                canonical = false;
                break;
            }
            case 6: {  // comprehension-required unknown attribute
                std::uint16_t ty = static_cast<std::uint16_t>(r.a16(1) & 0x7FFF);
                if (ty == 0x0001 || ty == 0x0020) ty = 0x0006;
                auto v = ap.bytes(r.a(0) % 24);
                put_attr(body, ty, v, true, ap, zero_pad);
                attrs += "req" + std::to_string(v.size()) + ",";
                canonical = false;
                break;
            }
            default: {  // odd-length attribute written without its padding (misaligns what follows)
                auto v = ap.bytes(1 + (r.a(0) % 23));
                put_attr(body, static_cast<std::uint16_t>(0x8000 | (r.a16(1) & 0x7FFF)), v, false, ap, zero_pad);
                attrs += "nopad" + std::to_string(v.size()) + ",";
                if (v.size() % 4) canonical = false;
                break;
            }
        }
        if (body.size() > 480) break;
    }
    if (body.size() > attr_start_mark) attr_ends.push_back({attr_start_mark, body.size()});
    if (!any_addr) canonical = false;
    c.note("attrs=[%s]", attrs.c_str());

    // header
    std::size_t declared = body.size();
    if (allow_dev) {
        switch (t.h(6) % 8) {
            case 2: {  // the message ends at the end of one of its attributes (padded, or at the unpadded end of its value): what follows is trailing datagram bytes that look like attributes
                if (attr_ends.size() < 2) break;
                auto [st, en] = attr_ends[t.h(7) % (attr_ends.size() - 1)];
                std::size_t unpadded = st + 4 + be16(body.data() + st + 2);
                declared = (t.h(8) & 1) && unpadded <= en ? unpadded : en;
                c.label("declared_ends_at_attribute_boundary");
                break;
            }
            case 3: declared = body.size() >= 4 ? body.size() - 4 : 0; break;
            case 4: { std::size_t k = 1 + t.h(7) % 8; declared = body.size() >= k ? body.size() - k : 0; break; }
            case 5: declared = body.size() + 4; break;
            case 6: declared = body.size() + 1 + t.h(7) % 16; break;
            case 7: declared = t.h(7) | (t.h(8) << 8); break;
            default: break;
        }
    }
    if (declared != body.size()) { canonical = false; }
    put16(b.d, type);
    put16(b.d, static_cast<std::uint16_t>(declared));
    b.d.insert(b.d.end(), cookie, cookie + 4);
    b.d.insert(b.d.end(), msg_txid.begin(), msg_txid.end());
    b.d.insert(b.d.end(), body.begin(), body.end());
    if (allow_dev) {
        switch (t.h(9) % 4) {
            case 2: { std::size_t k = 1 + t.h(10) % 24; b.d.resize(b.d.size() > k ? b.d.size() - k : 0); canonical = false; c.label("datagram_truncated"); break; }
            case 3: { std::size_t k = 1 + t.h(10) % 16; for (std::size_t i = 0; i < k; ++i) b.d.push_back(prng.byte()); canonical = false; c.label("trailing_bytes"); break; }
            default: break;
        }
    }
    if (b.d.size() > 512) { b.d.resize(512); canonical = false; }
    c.note("declared=%zu body=%zu datagram=%zu", declared, body.size(), b.d.size());

    b.txid = msg_txid;
    b.canonical = canonical;
    b.expect = case_addr;
    return b;
}

Built build_raw(Ctx& c) {
    const Tape& t = c.tape;
    Built b;
    std::size_t off = t.header;
    if (t.bytes.size() > off) b.d.assign(t.bytes.begin() + static_cast<std::ptrdiff_t>(off), t.bytes.end());
    if (b.d.size() > 512) b.d.resize(512);
    unsigned sub = (t.h(0) >> 2) & 3;
    if (sub >= 1 && b.d.size() >= 2) { b.d[0] = 0x01; b.d[1] = 0x01; }
    if (sub == 2 && b.d.size() >= 20) {
        std::size_t m = b.d.size() - 20;
        b.d[2] = static_cast<std::uint8_t>(m >> 8);
        b.d[3] = static_cast<std::uint8_t>(m & 0xFF);
    }
    if (b.d.size() >= 20) std::copy(b.d.begin() + 8, b.d.begin() + 20, b.txid.begin());
    c.note("raw/%u datagram=%s", sub, hex(b.d, 96).c_str());
    return b;
}

// run the parser on an exact-size heap copy and judge the outcome against the reference view
void judge(Ctx& c, const std::vector<std::uint8_t>& d, const Txid& txid, bool canonical, const Addr& expect) {
    std::unique_ptr<std::uint8_t[]> buf(new std::uint8_t[d.size()]);
    if (!d.empty()) std::memcpy(buf.get(), d.data(), d.size());
    shim_nat::StunResult got = shim_nat::parse_stun_response(buf.get(), d.size(), txid);
    RefView ref = ref_parse(d.data(), d.size(), txid);

    if (ref.eligible) {
        if (!ref.strict.empty() || !ref.lenient.empty()) c.nt("well_placed_address_attr");
        if (d.size() != 20u + be16(d.data() + 2)) c.nt("length_field_disagrees");
        if (ref.malformed_tail) c.label("malformed_attr_tail");
        if (!ref.overrun.empty()) c.label("addr_attr_overruns_declared_length");
    } else if (d.size() >= 20) {
        if (be16(d.data()) == 0x0101 && 20u + be16(d.data() + 2) != d.size()) c.nt("length_field_disagrees");
        if (be16(d.data()) == 0x0101 && 20u + be16(d.data() + 2) <= d.size()) c.label("only_txid_differs");
    }

    if (!got.has_value) {
        c.label("no_result");
        if (canonical) c.fail("C33:canonical-response-rejected", "no address reported for a canonical Binding Success response carrying " + expect.str());
        return;
    }
    c.label("result_returned");
    c.note("-> %s:%u", got.address.c_str(), got.port);

    if (!ref.eligible) {
        std::string sig = d.size() < 20 ? "C33:result-for-short-datagram"
                          : be16(d.data()) != 0x0101 ? "C33:result-for-non-success-type"
                          : 20u + be16(d.data() + 2) > d.size() ? "C33:result-for-overlong-declared-length"
                                                                 : "C33:result-for-wrong-transaction-id";
        c.fail(sig, "an address (" + got.address + ":" + std::to_string(got.port) + ") was reported although " + ref.why);
    }

    // the reported text back to binary (libc, not the code under test)
    Addr g;
    g.port = got.port;
    if (got.address.find(':') != std::string::npos) {
        g.family = 2;
        if (inet_pton(AF_INET6, got.address.c_str(), g.a.data()) != 1) c.fail("C33:address-text-invalid", "reported IPv6 text does not parse: " + got.address);
        c.label("result_ipv6");
    } else {
        g.family = 1;
        if (inet_pton(AF_INET, got.address.c_str(), g.a.data()) != 1) c.fail("C33:address-text-invalid", "reported IPv4 text does not parse: " + got.address);
        if (got.address != v4_text(g.a.data())) c.fail("C33:address-text-invalid", "reported IPv4 text is not the dotted quad: " + got.address);
        c.label("result_ipv4");
    }

    auto in = [&](const std::vector<Addr>& v) { for (auto& a : v) if (a.same(g)) return true; return false; };
    if (!in(ref.strict)) {
        if (in(ref.lenient)) {
            c.label("result_from_overlong_value");  // tolerated: value longer than the family needs, leading bytes used
        } else if (in(ref.overrun)) {
            const std::string sig = "C33:attr-overruns-declared-length";
            if (!c.is_known(sig))
                c.fail(sig, "reported " + g.str() + " comes from an address attribute whose value extends beyond the message's declared length (" +
                                std::to_string(be16(d.data() + 2)) + ") into trailing datagram bytes");
            c.count_excluded(sig);
            c.label("tolerated_known_overrun");
            return;
        } else {
            std::string cands;
            for (auto& a : ref.strict) cands += a.str() + " ";
            c.fail("C33:address-not-from-attribute", "reported " + g.str() + " is not the RFC 5389 decode of any well-placed address attribute; candidates: [" + cands + "]");
        }
    }
    if (canonical) {
        c.label("canonical");
        if (!expect.same(g)) c.fail("C33:canonical-wrong-address", "canonical response encodes " + expect.str() + " but " + g.str() + " was reported");
    }
}

// RFC 5769 sections 2.2 and 2.3 (sample IPv4 / IPv6 responses)
const std::uint8_t kRfc5769v4[] = {
    0x01, 0x01, 0x00, 0x3c, 0x21, 0x12, 0xa4, 0x42, 0xb7, 0xe7, 0xa7, 0x01, 0xbc, 0x34, 0xd6, 0x86, 0xfa, 0x87, 0xdf, 0xae,
    0x80, 0x22, 0x00, 0x0b, 0x74, 0x65, 0x73, 0x74, 0x20, 0x76, 0x65, 0x63, 0x74, 0x6f, 0x72, 0x20,
    0x00, 0x20, 0x00, 0x08, 0x00, 0x01, 0xa1, 0x47, 0xe1, 0x12, 0xa6, 0x43,
    0x00, 0x08, 0x00, 0x14, 0x2b, 0x91, 0xf5, 0x99, 0xfd, 0x9e, 0x90, 0xc3, 0x8c, 0x74, 0x89, 0xf9, 0x2a, 0xf9, 0xba, 0x53, 0xf0, 0x6b, 0xe7, 0xd7,
    0x80, 0x28, 0x00, 0x04, 0xc0, 0x7d, 0x4c, 0x96};
const std::uint8_t kRfc5769v6[] = {
    0x01, 0x01, 0x00, 0x48, 0x21, 0x12, 0xa4, 0x42, 0xb7, 0xe7, 0xa7, 0x01, 0xbc, 0x34, 0xd6, 0x86, 0xfa, 0x87, 0xdf, 0xae,
    0x80, 0x22, 0x00, 0x0b, 0x74, 0x65, 0x73, 0x74, 0x20, 0x76, 0x65, 0x63, 0x74, 0x6f, 0x72, 0x20,
    0x00, 0x20, 0x00, 0x14, 0x00, 0x02, 0xa1, 0x47, 0x01, 0x13, 0xa9, 0xfa, 0xa5, 0xd3, 0xf1, 0x79, 0xbc, 0x25, 0xf4, 0xb5, 0xbe, 0xd2, 0xb9, 0xd9,
    0x00, 0x08, 0x00, 0x14, 0xa3, 0x82, 0x95, 0x4e, 0x4b, 0xe6, 0x7b, 0xf1, 0x17, 0x84, 0xc9, 0x7c, 0x82, 0x92, 0xc2, 0x75, 0xbf, 0xe3, 0xed, 0x41,
    0x80, 0x28, 0x00, 0x04, 0xc8, 0xfb, 0x0b, 0x4c};
}  // namespace

void run_case(Ctx& c) {
    const Tape& t = c.tape;
    unsigned mode = t.h(0) & 3;
    Built b;
    if (mode == 3) {
        c.label("mode_raw");
        b = build_raw(c);
    } else {
        c.label(mode == 0 ? "mode_structured_plain_header" : "mode_structured_deviations");
        b = build_structured(c, mode != 0);
    }
    // the transaction id the client is waiting for
    Txid want = b.txid;
    switch (t.h(1) % 8) {
        case 1: want[(t.h(2) % 96) / 8] ^= static_cast<std::uint8_t>(1u << (t.h(2) % 8)); c.label("txid_one_bit_off"); break;
        case 2: { Prng p(t.h32(12) ^ 0x7A1D); p.fill(want.data(), 12); c.label("txid_random"); break; }
        default: break;
    }
    bool id_matches = b.d.size() >= 20 && std::equal(want.begin(), want.end(), b.d.begin() + 8);
    c.note("txid=%s%s", hex(want, 12).c_str(), id_matches ? "" : " (differs)");
    judge(c, b.d, want, b.canonical && id_matches, b.expect);
}

std::string run_once(Ctx& c) {
    // (sensitivity experiments set VERIF_SKIP_ONCE to see what the generated cases alone detect)
    if (std::getenv("VERIF_SKIP_ONCE")) return "";
    // the reference decoder and the parser on the RFC 5769 sample responses
    struct V { const std::uint8_t* p; std::size_t n; int family; const char* text; std::uint16_t port; };
    const V vs[] = {{kRfc5769v4, sizeof kRfc5769v4, 1, "192.0.2.1", 32853},
                    {kRfc5769v6, sizeof kRfc5769v6, 2, "2001:db8:1234:5678:11:2233:4455:6677", 32853}};
    for (auto& v : vs) {
        Txid id;
        std::copy(v.p + 8, v.p + 20, id.begin());
        Addr want;
        want.family = v.family;
        want.port = v.port;
        if (inet_pton(v.family == 1 ? AF_INET : AF_INET6, v.text, want.a.data()) != 1) c.fail("C33:harness-error", "inet_pton on the RFC 5769 address");
        RefView r = ref_parse(v.p, v.n, id);
        if (!r.eligible || r.strict.empty() || !r.strict[0].same(want) || r.malformed_tail || r.attrs != 4)
            c.fail("C33:harness-error", std::string("reference decoder disagrees with RFC 5769 on ") + v.text);
        std::vector<std::uint8_t> d(v.p, v.p + v.n);
        c.note("rfc5769 %s", v.text);
        judge(c, d, id, true, want);
    }
    return "reference TLV walker / XOR decoders and the parser both reproduce the RFC 5769 section 2.2 (192.0.2.1:32853) and 2.3 "
           "(2001:db8:1234:5678:11:2233:4455:6677 port 32853) sample responses";
}

std::vector<std::vector<std::uint8_t>> seed_tapes() {
    std::vector<std::vector<std::uint8_t>> out;
    for (auto [p, n] : {std::pair<const std::uint8_t*, std::size_t>{kRfc5769v4, sizeof kRfc5769v4}, {kRfc5769v6, sizeof kRfc5769v6}}) {
        std::vector<std::uint8_t> tape(16, 0);
        tape[0] = 3;  // raw, transaction id copied from the datagram
        tape.insert(tape.end(), p, p + n);
        out.push_back(tape);
    }
    // structured: XOR v4 ; opt(5)+MAPPED ; XOR with declared length 4 short and trailing bytes
    out.push_back({0, 0, 0, 0, 0, 0, 0, 0, 0, 0, 0, 0, 1, 0, 0, 0, 2, 0, 0, 0, 0, 0, 0, 0});
    out.push_back({0, 0, 0, 0, 0, 0, 0, 0, 0, 0, 0, 0, 3, 0, 0, 0, 0, 5, 1, 0, 0, 0, 0, 0, 1, 0, 0, 0, 0, 0, 0, 0});
    out.push_back({1, 0, 0, 0, 0, 0, 3, 0, 0, 0, 0, 0, 2, 0, 0, 0, 2, 0, 0, 0, 0, 0, 0, 0});
    return out;
}
}  // namespace verif
