// C39 — key rotation never leaves the two ends of a session on different keys (two Nodes, loopback session, virtual time)
#include "verif.hpp"
#include "vclock.hpp"
#include "node_access.hpp"

#include <mutex>

namespace verif {
const PropertyInfo kInfo = {
    "C39", 8, 8, 24,
    "tape -> two Nodes with key rotation intervals from {5,7,30,300,3600} s (equal or different), a mutual PoW-valid handshake and a real loopback transport session "
    "(B listens, A connects — in a quarter of the cases only after one or two rotations that both ends perform while not yet connected, the dial then happens inside the handshake cooldown and B speaks first; in half of the cases A also knows a third peer; B registers the handshake {0,1ns,3ms,1s} after A); B's steady clock is skewed against A's by {0,1ns,1ms,3s} (per-thread skew of the interposed clock while B ticks). History of tick(A), tick(B), "
    "advance (to A's/B's next rotation instant exactly / +-1ns / random), send A->B, send B->A, joint step (advance past both intervals, tick A and tick B at the same instant), B restarts (same peer id, new identity key; mutual re-handshake after the cooldown, A dials again, B speaks first). Oracle after every step: whenever both ends report the session open, their "
    "session keys for each other are equal, and a payload sent now arrives byte-identical in the other end's message handler (real-time wait <= 2 s, timeout = inconclusive). "
    "Signature distinguishes divergence without any rotation, divergence after rotations at different instants / different counts on the two ends (the listed finding) and divergence although both ends rotated at identical instants. Non-trivial: both ends rotated at the same instant, a peer restart, >= 1 rotation happened on either side while the session was open "
    "(or, while the after-rotation finding is listed, >= 2 ticks and a delivered message before the first rotation)."};

namespace {
using namespace ephemeralnet;
using std::chrono::seconds;
using std::chrono::nanoseconds;

struct Inbox {
    std::mutex m;
    std::vector<std::vector<std::uint8_t>> got;
    void push(const network::TransportMessage& tm) { std::lock_guard<std::mutex> l(m); got.push_back(tm.payload); }
    bool pop(std::vector<std::uint8_t>& out) {
        std::lock_guard<std::mutex> l(m);
        if (got.empty()) return false;
        out = got.front();
        got.erase(got.begin());
        return true;
    }
};
}  // namespace

void run_case(Ctx& c) {
    vclock::Frozen frozen(c.tape.header_seed());
    vnode::silence_streams();
    const Tape& t = c.tape;
    static const int kRot[] = {5, 7, 30, 300, 3600, 5, 30, 5};
    static const long long kSkew[] = {0, 1, 1000000, 3000000000LL};
    Config ca, cb;
    for (Config* cfg : {&ca, &cb}) {
        cfg->handshake_pow_difficulty = 2;
        cfg->announce_pow_difficulty = 0;
        cfg->nat_stun_enabled = false;
        cfg->relay_enabled = false;
        cfg->cleanup_interval = seconds(3600);
        cfg->handshake_cooldown = ((t.h(6) & 6) == 6) ? seconds(3600) : seconds(5);   // late-connect cases dial inside the handshake cooldown
    }
    ca.key_rotation_interval = seconds(kRot[t.h(0) % 8]);
    cb.key_rotation_interval = (t.h(1) & 1) ? ca.key_rotation_interval : seconds(kRot[t.h(2) % 8]);
    ca.identity_seed = 3901;
    cb.identity_seed = 3902 + t.h(3) % 4;
    const bool late_connect = (t.h(6) & 6) == 6;   // 1/4: rotate (at identical instants, hence no skew) before the session is opened
    const nanoseconds skewB{late_connect ? 0 : kSkew[t.h(4) % 4]};
    c.note("rotA=%llds rotB=%llds skewB=%lldns", (long long)ca.key_rotation_interval.count(), (long long)cb.key_rotation_interval.count(), (long long)skewB.count());

    // the responder registers the shared handshake a little later than the initiator (a real exchange is never simultaneous)
    static const long long kRegGap[] = {0, 1, 3000000, 1000000000LL};
    const nanoseconds reg_gap{kRegGap[t.h(5) % 4]};
    c.note("reg_gap=%lldns", (long long)reg_gap.count());
    const PeerId idB = vnode::make_id(392, 0xB7);
    Node A(vnode::make_id(391, 0xA7), ca);
    std::unique_ptr<Node> Bp = std::make_unique<Node>(idB, cb);
    Inbox inA, inB;
    A.set_message_handler([&](const network::TransportMessage& m) { inA.push(m); });
    struct Stopper { Node& a; std::unique_ptr<Node>& b; ~Stopper() { a.stop_transport(); if (b) b->stop_transport(); } } stopper{A, Bp};
    A.start_transport(0);
    auto wait_for = [&](auto pred) { for (int i = 0; i < 10000; ++i) { if (pred()) return true; std::this_thread::sleep_for(std::chrono::microseconds(200)); } return false; };
    auto& sa = vnode::Access::sessions(A);
    std::array<std::uint8_t, 32> baseA{}, baseB{};
    const int late_rotations = late_connect ? 1 + ((t.h(6) >> 3) & 1) : 0;
    bool first_establish = true;
    std::vector<long long> pre_hist_a, pre_hist_b;
    // a third peer known to A only (a shared secret, no session): A's key manager then holds more than one context
    if (t.h(6) & 1) {
        crypto::Key k3{};
        Prng(3933).fill(k3.bytes.data(), k3.bytes.size());
        A.register_shared_secret(vnode::make_id(393, 0xC7), k3);
        c.label("third_peer_known_to_one_end");
    }
    // (re-)establish: mutual PoW-valid handshake, then A dials B.  false = inconclusive (could not connect)
    auto establish = [&]() -> bool {
        Node& B = *Bp;
        B.set_message_handler([&](const network::TransportMessage& m) { inB.push(m); });
        B.start_transport(0);
        auto wa = A.generate_handshake_work(B.id());
        auto wb = B.generate_handshake_work(A.id());
        if (!wa || !wb) c.fail("C39:harness-error", "PoW not solved");
        if (!A.perform_handshake(B.id(), B.public_identity(), *wb)) c.fail("C39:harness-error", "handshake refused by A");
        vclock::advance(reg_gap);
        if (!B.perform_handshake(A.id(), A.public_identity(), *wa)) c.fail("C39:harness-error", "handshake refused by B");
        // late connect: the two ends have shaken hands but are not connected while they rotate (at the same virtual instants);
        // the session is only opened afterwards, still inside the handshake cooldown
        if (late_rotations > 0 && first_establish) {
            for (int q = 0; q < late_rotations; ++q) {
                vclock::advance(std::max(A.config().key_rotation_interval, B.config().key_rotation_interval) + reg_gap + seconds(1));
                auto ba = A.session_key(B.id());
                A.tick();
                if (A.session_key(B.id()) != ba) pre_hist_a.push_back(vclock::now_offset().count());
                auto bb = B.session_key(A.id());
                vclock::set_thread_skew(skewB, skewB);
                B.tick();
                vclock::set_thread_skew(nanoseconds(0), nanoseconds(0));
                if (B.session_key(A.id()) != bb) pre_hist_b.push_back((vclock::now_offset() + skewB).count());
            }
            c.label("rotated_before_connecting");
        }
        first_establish = false;
        if (!A.connect_peer(B.id(), "127.0.0.1", B.transport_port())) return false;
        auto& sb0 = vnode::Access::sessions(B);
        if (!wait_for([&] { return sa.is_connected(B.id()) && sb0.is_connected(A.id()); })) return false;
        baseA = *A.session_key(B.id());
        baseB = *B.session_key(A.id());
        if (baseA != baseB) c.fail("C39:diverged-without-rotation", "the two ends hold different keys right after the shared handshake");
        return true;
    };
    if (!establish()) { c.label("connect_failed_inconclusive"); return; }
    const bool speak_first_b = late_rotations > 0;
#define B (*Bp)
#define sb (vnode::Access::sessions(*Bp))

    std::uint64_t seq = 0;
    int ticks_before_rotation = 0, delivered_before_rotation = 0;
    bool rotated = false;
    // instants (on each end's own clock) at which a tick changed that end's key for the other: two ends that rotated at the
    // same instants the same number of times have no "uncoordinated rotation" between them
    std::vector<long long> histA, histB;
    const bool known_after = c.is_known("C39:diverged-after-rotation");

    auto check = [&](const char* after) -> bool {
        if (!(sa.is_connected(B.id()) && sb.is_connected(A.id()))) { c.label("session_closed"); return true; }
        auto ka = A.session_key(B.id()), kb = B.session_key(A.id());
        bool rot_now = (ka && *ka != baseA) || (kb && *kb != baseB);
        if (rot_now && !rotated) { rotated = true; c.nt("rotation_while_session_open"); }
        if (!ka || !kb || *ka != *kb) {
            if (rotated && histA == histB)
                c.fail("C39:diverged-although-both-ends-rotated-at-the-same-instants", std::string("after ") + after + ": both ends rotated " + std::to_string(histA.size()) +
                                                                                       " time(s) at identical instants, the session is open, and they hold different keys");
            const char* sig = rotated ? "C39:diverged-after-rotation" : "C39:diverged-without-rotation";
            c.fail(sig, std::string("after ") + after + " both ends report the session open but hold different session keys (A: " + (ka ? hex(*ka, 6) : "none") + ", B: " + (kb ? hex(*kb, 6) : "none") + ")");
        }
        return true;
    };
    auto send_and_check = [&](bool a_to_b) {
        Node& from = a_to_b ? A : B;
        Node& to = a_to_b ? B : A;
        Inbox& inbox = a_to_b ? inB : inA;
        if (!(sa.is_connected(B.id()) && sb.is_connected(A.id()))) return;
        std::vector<std::uint8_t> junk;
        while (inbox.pop(junk)) {}
        auto payload = Prng(++seq * 77).bytes(24 + seq % 40);
        if (!from.send_secure(to.id(), payload)) { c.label("send_refused"); return; }
        std::vector<std::uint8_t> got;
        if (!wait_for([&] { return inbox.pop(got); })) { c.label("delivery_timeout_inconclusive"); return; }
        if (got != payload) {
            const char* sig = rotated ? "C39:diverged-after-rotation" : "C39:diverged-without-rotation";
            c.fail(sig, std::string("a payload sent ") + (a_to_b ? "A->B" : "B->A") + " while both ends report the session open arrived corrupted (the ends decrypt with different keys)");
        }
        if (!rotated) ++delivered_before_rotation;
        c.label("message_delivered");
    };

    if (speak_first_b) {
        // rotated while disconnected at identical instants (otherwise it is the listed finding's shape): the acceptor speaks first
        if (pre_hist_a == pre_hist_b) { c.nt("acceptor_speaks_first_after_late_connect"); send_and_check(false); check("the late connect"); }
        else { c.count_excluded("C39:diverged-after-rotation"); return; }
    }
    for (std::size_t i = 0; i < t.nrec(); ++i) {
        Rec r = t.r(i);
        switch (r.op() % 16 == 15 ? 6 : r.op() % 16 == 14 ? 7 : r.op() % 6) {
            case 7: {
                // both ends become due and tick at the same virtual instant (no step is judged in between)
                const auto ia = A.config().key_rotation_interval, ib = B.config().key_rotation_interval;
                nanoseconds d = std::max(ia, ib) + reg_gap + seconds(1 + r.a(0) % 3);
                c.note("|adv(%lld)+tickA+tickB", static_cast<long long>(d.count()));
                vclock::advance(d);
                auto ba = A.session_key(B.id());
                A.tick();
                if (A.session_key(B.id()) != ba) histA.push_back(vclock::now_offset().count());
                auto bb = B.session_key(A.id());
                vclock::set_thread_skew(skewB, skewB);
                B.tick();
                vclock::set_thread_skew(nanoseconds(0), nanoseconds(0));
                if (B.session_key(A.id()) != bb) histB.push_back((vclock::now_offset() + skewB).count());
                if (histA == histB && !histA.empty()) c.nt("both_ends_rotated_at_the_same_instant");
                break;
            }
            case 6: {
                // B comes back as a new process: same peer id, new identity key; both ends handshake again and A dials again
                if (rotated) break;   // (keeps the listed rotation finding out of this scenario)
                c.note("|restartB");
                Bp->stop_transport();
                Bp.reset();
                if (!wait_for([&] { return !sa.is_connected(idB); })) { c.label("old_session_lingers_inconclusive"); return; }
                cb.identity_seed = cb.identity_seed.value_or(0) + 16;
                Bp = std::make_unique<Node>(idB, cb);
                vclock::advance(A.config().handshake_cooldown + seconds(1));
                histA.clear(); histB.clear();
                if (!establish()) { c.label("reconnect_failed_inconclusive"); return; }
                c.nt("peer_restarted_with_new_identity");
                // the restarted peer speaks first
                send_and_check(false);
                break;
            }
            case 0: {
                c.note("|tickA");
                auto before = A.session_key(B.id());
                A.tick();
                if (A.session_key(B.id()) != before) histA.push_back(vclock::now_offset().count());
                if (!rotated) ++ticks_before_rotation;
                break;
            }
            case 1: {
                c.note("|tickB");
                auto before = B.session_key(A.id());
                vclock::set_thread_skew(skewB, skewB);
                B.tick();
                vclock::set_thread_skew(nanoseconds(0), nanoseconds(0));
                if (B.session_key(A.id()) != before) histB.push_back((vclock::now_offset() + skewB).count());
                if (!rotated) ++ticks_before_rotation;
                break;
            }
            case 2: {
                nanoseconds d{0};
                const auto ia = A.config().key_rotation_interval, ib = B.config().key_rotation_interval;
                const nanoseconds tnow = vclock::now_offset();
                auto to_next = [&](nanoseconds interval) { auto rem = interval - (tnow % interval); return rem; };
                switch (r.a(0) % 7) {
                    case 0: d = to_next(ia); break;
                    case 1: d = to_next(ia) - nanoseconds(1); break;
                    case 2: d = to_next(ia) + nanoseconds(1); break;
                    case 3: d = to_next(ib); break;
                    case 4: d = to_next(ib) - skewB; break;
                    case 5: d = std::chrono::milliseconds(1 + r.a16(1) % 4000); break;
                    case 6: d = seconds(1 + r.a(1) % 40); break;
                }
                if (d.count() < 0) d = nanoseconds(0);
                c.note("|adv(%lld)", static_cast<long long>(d.count()));
                vclock::advance(d);
                break;
            }
            case 3: case 4: c.note("|sendAB"); send_and_check(true); break;
            case 5: c.note("|sendBA"); send_and_check(false); break;
        }
        if (known_after) {
            // listed finding: stop judging at the first rotation that leaves the ends on different keys
            auto ka = A.session_key(B.id()), kb = B.session_key(A.id());
            bool rot_now = (ka && *ka != baseA) || (kb && *kb != baseB);
            if (rot_now && (!ka || !kb || *ka != *kb) && histA != histB && sa.is_connected(B.id()) && sb.is_connected(A.id())) {
                c.count_excluded("C39:diverged-after-rotation");
                if (ticks_before_rotation >= 2 && delivered_before_rotation >= 1) c.nt("ticks_and_delivery_before_first_rotation");
                return;
            }
        }
        check("step");
    }
    if (known_after && ticks_before_rotation >= 2 && delivered_before_rotation >= 1) c.nt("ticks_and_delivery_before_first_rotation");
}
#undef B
#undef sb
}  // namespace verif
