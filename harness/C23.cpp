// C23 — upload concurrency limits hold and slots are always released (Node, fake peers, virtual time)
#define VERIF_FUZZ_TARGET 1
#include "verif.hpp"
#include "vclock.hpp"
#include "node_access.hpp"

#include <array>
#include <map>
#include <set>

namespace verif {
const PropertyInfo kInfo = {
    "C23", 8, 8, 50,
    "tape -> Node with upload_max_parallel_transfers 0..4, upload_max_transfers_per_peer 0..3 (0 = unlimited), transfer timeout 2..9 s, holding 3 long-lived chunks and one "
    "short-lived chunk; 3 fake peers with sessions on socketpairs. History of REQUEST(peer, chunk) incl. repeats of an in-flight (peer, chunk), unknown and expired chunks; "
    "ACK(peer, chunk, accepted/rejected, also for chunks never sent); advance (to the next transfer timeout exactly / -1ns / +1ns / random); tick. Oracle (black box, from the "
    "decrypted frames): an upload (peer, chunk) is running from the CHUNK frame until that peer's ACK for the chunk or start+timeout; at every CHUNK emission the number of running "
    "uploads is <= the overall limit and the peer's running uploads <= the per-peer limit (when non-zero); a REQUEST for an unknown/expired chunk is answered with a negative ACK; "
    "after a tick, a peer with no running upload has no in-use slot (per-peer counter absent/zero, no active entry). A repeated CHUNK for an in-flight (peer, chunk) counts as the "
    "same upload. Every request that is queued (limits reached) must leave the queue through a CHUNK or a negative ACK (the short-lived chunk, TTL 6/10/15 s, becomes unservable while requests for it wait; "
    "advances also go to its deadline and to deadline - min_manifest_ttl +-1ns); half of the operations address one focus peer, requests prefer chunks that peer is not yet being sent. "
    "Non-trivial: a repeated in-flight (peer, chunk) with per-peer limit != 1, a timeout release, or a queued request that is refused later."};

namespace {
using namespace ephemeralnet;
using TP = std::chrono::steady_clock::time_point;
using std::chrono::seconds;
using std::chrono::nanoseconds;
TP now() { return std::chrono::steady_clock::now(); }
ChunkId cid(int i) { ChunkId c{}; Prng g(2300 + i); g.fill(c.data(), c.size()); c[0] = static_cast<std::uint8_t>(0xC0 + i); return c; }
}  // namespace

void run_case(Ctx& c) {
    vclock::Frozen frozen(c.tape.header_seed());
    vnode::silence_streams();
    const Tape& t = c.tape;
    Config cfg;
    cfg.upload_max_parallel_transfers = static_cast<std::uint16_t>(t.h(0) % 5);
    cfg.upload_max_transfers_per_peer = static_cast<std::uint16_t>(t.h(1) % 4);
    cfg.upload_transfer_timeout = seconds(2 + t.h(2) % 8);
    cfg.upload_reconsider_interval = seconds(t.h(3) % 3);
    cfg.min_manifest_ttl = seconds(2);
    cfg.max_manifest_ttl = seconds(86400);
    cfg.cleanup_interval = seconds(3600);
    cfg.key_rotation_interval = seconds(3600);
    cfg.announce_pow_difficulty = 0;
    cfg.handshake_pow_difficulty = 0;
    cfg.nat_stun_enabled = false;
    cfg.relay_enabled = false;
    cfg.identity_seed = 23;
    Node node(vnode::make_id(81, 0xA9), cfg);
    const std::size_t overall = node.config().upload_max_parallel_transfers, per_peer = node.config().upload_max_transfers_per_peer;
    const auto timeout = node.config().upload_transfer_timeout;
    c.note("overall=%zu per_peer=%zu timeout=%llds", overall, per_peer, (long long)timeout.count());
    vnode::FakePeer peers[3];
    for (int i = 0; i < 3; ++i)
        if (!peers[i].attach(node, vnode::make_id(90 + i, static_cast<std::uint8_t>(0x20 + i)), 900 + i)) c.fail("C23:harness-error", "attach failed");
    vnode::QuiesceGuard guard{node, {&peers[0], &peers[1], &peers[2]}};
    // chunks 0..2 long lived, 3 short lived (10 s), 4 never stored
    for (int k = 0; k < 3; ++k) node.store_chunk(cid(k), Prng(40 + k).bytes(32), seconds(80000));
    static const int kShortTtl[] = {10, 6, 15, 10};
    const seconds short_ttl{kShortTtl[t.h(5) % 4]};
    const int focus = t.h(4) % 3;  // half of the operations go to this peer, so that one peer accumulates several uploads
    node.store_chunk(cid(3), Prng(43).bytes(32), short_ttl);
    const TP short_deadline = now() + short_ttl;
    c.note("short_ttl=%llds focus=p%d", (long long)short_ttl.count(), focus);

    std::map<std::pair<int, int>, TP> running;   // (peer, chunk) -> start
    bool dup_seen[3] = {false, false, false};
    auto prune_model = [&]() {
        for (auto it = running.begin(); it != running.end();) it = (now() - it->second >= timeout) ? running.erase(it) : std::next(it);
    };
    auto chunk_index = [&](const ChunkId& id) { for (int k = 0; k < 5; ++k) if (cid(k) == id) return k; return -1; };

    // requests that have been answered neither by a CHUNK nor by a negative ACK yet (they wait in the node's queue)
    std::set<std::pair<int, int>> waiting;
    auto still_queued = [&](int p, int k) {
        for (auto& q : vnode::Access::pending_uploads(node)) if (q.peer_id == peers[p].id && q.chunk_id == cid(k)) return true;
        return false;
    };
    // Every request of a peer with a session is queued by the node and leaves the queue through a CHUNK (upload started) or,
    // when the node finds it cannot serve the chunk after all, a negative ACK.  A request that is gone from the queue, is not
    // running and got no negative ACK was dropped silently.
    auto check_waiting = [&](const char* after) {
        for (auto it = waiting.begin(); it != waiting.end();) {
            if (still_queued(it->first, it->second) || running.count(*it)) { ++it; continue; }
            c.fail("C23:queued-request-dropped-without-answer", std::string("after ") + after + ": the queued request of p" + std::to_string(it->first) + " for c" + std::to_string(it->second) +
                                                                   " left the queue, but the peer got neither the chunk nor a negative ACK");
        }
    };
    bool chunk_for_request = false;
    // returns per peer whether a negative ack for `want_chunk` was seen
    auto observe = [&](int req_peer, int want_chunk) {
        bool nack = false;
        chunk_for_request = false;
        for (int p = 0; p < 3; ++p) {
            for (auto& msg : peers[p].drain()) {
                if (auto* cp = std::get_if<protocol::ChunkPayload>(&msg.payload)) {
                    int k = chunk_index(cp->chunk_id);
                    prune_model();
                    auto key = std::make_pair(p, k);
                    if (running.count(key)) {
                        dup_seen[p] = true;
                        if (per_peer != 1) c.nt("repeated_inflight_upload");
                    }
                    running[key] = now();
                    waiting.erase(key);
                    if (p == req_peer && k == want_chunk) chunk_for_request = true;
                    std::size_t total = running.size(), mine = 0;
                    for (auto& [kk, s] : running) if (kk.first == p) ++mine;
                    if (overall > 0 && total > overall) c.fail("C23:overall-limit-exceeded", std::to_string(total) + " uploads running, limit " + std::to_string(overall));
                    if (per_peer > 0 && mine > per_peer) c.fail("C23:per-peer-limit-exceeded", std::to_string(mine) + " uploads running for one peer, limit " + std::to_string(per_peer));
                    c.label("chunk_sent");
                } else if (auto* ap = std::get_if<protocol::AcknowledgePayload>(&msg.payload)) {
                    if (p == req_peer && !ap->accepted && chunk_index(ap->chunk_id) == want_chunk) nack = true;
                    if (!ap->accepted) {
                        if (waiting.erase({p, chunk_index(ap->chunk_id)})) c.nt("queued_request_refused_later");
                    }
                }
            }
        }
        return nack;
    };

    // One case in four starts from a constructed state instead of an empty node: the focus peer has two (or three) uploads
    // of different ages and the clock stands at the edge of the oldest one's timeout.  The prefix is expressed in the same
    // operation records as the generated history, so it takes the same code path below.
    std::vector<std::array<std::uint8_t, 8>> prefix;
    if ((t.h(6) & 3) == 0) {
        c.label("prefix_uploads_of_different_age");
        const unsigned timeout_ms = static_cast<unsigned>(std::chrono::duration_cast<std::chrono::milliseconds>(timeout).count());
        auto req = [&](std::uint8_t k) { prefix.push_back({0, 0x80, k, 2, 0, 0, 0, 0}); };
        auto gap = [&](unsigned ms) { unsigned v = ms - 1; prefix.push_back({4, 0, 3, static_cast<std::uint8_t>(v & 0xFF), static_cast<std::uint8_t>(v >> 8), 0, 0, 0}); };
        req(0);
        gap(1 + (t.h(7) * 37u) % std::min(2999u, timeout_ms - 1));
        req(1);
        if (t.h(6) & 4) { gap(1 + (t.h(7) * 11u) % 200u); req(2); }
        prefix.push_back({4, 0, static_cast<std::uint8_t>((t.h(6) >> 4) % 3), 0, 0, 0, 0, 0});  // to the first timeout: exactly / -1ns / +1ns
    }
    const std::size_t nops = prefix.size() + t.nrec();
    for (std::size_t i = 0; i < nops; ++i) {
        Rec r = i < prefix.size() ? Rec{prefix[i].data(), 8} : t.r(i - prefix.size());
        int p = (r.a(0) & 0x80) ? focus : r.a(0) % 3;
        // operation mix: request 3/8, acknowledgement 1/8, advance 2/8, tick 2/8
        static const unsigned kOpMap[8] = {0, 0, 0, 3, 5, 5, 6, 6};
        switch (kOpMap[r.op() % 8]) {
            case 0: case 1: case 2: {
                int k = r.a(1) % 8;
                if (k >= 5) k = k - 5;  // bias to the long-lived chunks
                if ((r.a(2) & 3) == 0 && !running.empty()) {  // repeat an in-flight (peer, chunk)
                    auto it = running.begin();
                    std::advance(it, r.a(3) % running.size());
                    p = it->first.first;
                    k = it->first.second;
                }
                else if ((r.a(2) & 3) == 1) {  // a chunk this peer is not being sent yet
                    for (int kk = 0; kk < 4; ++kk) {
                        int cand = (k + kk) % 4;
                        if (!running.count({p, cand})) { k = cand; break; }
                    }
                }
                c.note("|req(p%d,c%d)", p, k);
                protocol::Message m{};
                m.type = protocol::MessageType::Request;
                m.payload = protocol::RequestPayload{cid(k), peers[p].id};
                peers[p].deliver(m);
                const bool was_running = running.count({p, k}) > 0;
                bool nack = observe(p, k);
                if (!nack && !chunk_for_request && !was_running) {
                    if (still_queued(p, k)) { waiting.insert({p, k}); c.label("request_queued"); }
                    else c.fail("C23:queued-request-dropped-without-answer", "the request of p" + std::to_string(p) + " for c" + std::to_string(k) + " got neither the chunk nor a negative ACK and is not queued");
                }
                check_waiting("a request");
                bool unservable = k == 4 || (k == 3 && now() >= short_deadline);
                if (unservable) {
                    c.label("unservable_request");
                    if (!nack) c.fail("C23:no-negative-ack", "a request for a chunk the node cannot serve (c" + std::to_string(k) + ") got no negative ACK");
                }
                break;
            }
            case 3: case 4: {
                int k = r.a(1) % 5;
                if ((r.a(2) & 1) && !running.empty()) {  // ack something actually in flight
                    auto it = running.begin();
                    std::advance(it, r.a(3) % running.size());
                    p = it->first.first;
                    k = it->first.second;
                }
                bool accepted = (r.a(4) & 1) != 0;
                c.note("|ack(p%d,c%d,%d)", p, k, accepted);
                prune_model();
                running.erase({p, k});
                protocol::Message m{};
                m.type = protocol::MessageType::Acknowledge;
                protocol::AcknowledgePayload a{};
                a.chunk_id = cid(k);
                a.peer_id = peers[p].id;
                a.accepted = accepted;
                m.payload = a;
                peers[p].deliver(m);
                observe(-1, -1);
                check_waiting("an acknowledgement");
                break;
            }
            case 5: {
                TP next = TP::max();
                for (auto& [kk, s] : running) next = std::min(next, s + timeout);
                static const unsigned kKindMap[10] = {0, 1, 2, 3, 4, 5, 6, 7, 0, 2};
                unsigned kind = kKindMap[r.a(1) % 10];
                if (next == TP::max() && kind < 3) kind = 3;
                nanoseconds d{0};
                const nanoseconds min_ttl = std::chrono::duration_cast<nanoseconds>(node.config().min_manifest_ttl);
                switch (kind) {
                    // the short-lived chunk: just before / at the instant its remaining lifetime drops below the minimum manifest TTL, and its deadline
                    case 5: d = short_deadline - min_ttl - now() + nanoseconds(static_cast<int>(r.a(2) % 3) - 1); break;
                    case 6: d = short_deadline - min_ttl / 2 - now(); break;
                    case 7: d = short_deadline - now() + nanoseconds(static_cast<int>(r.a(2) % 3) - 1); break;
                    case 0: d = next - now(); break;
                    case 1: d = next - now() - nanoseconds(1); break;
                    case 2: d = next - now() + nanoseconds(1); break;
                    case 3: d = std::chrono::milliseconds(1 + r.a16(2) % 3000); break;
                    case 4: d = seconds(1 + r.a(2) % 12); break;
                }
                if (d.count() < 0) d = nanoseconds(0);
                c.note("|adv(%lld)", static_cast<long long>(d.count()));
                std::size_t before = running.size();
                vclock::advance(d);
                prune_model();
                if (running.size() < before) c.nt("timeout_release");
                break;
            }
            case 6: case 7: {
                c.note("|tick");
                node.tick();
                observe(-1, -1);
                prune_model();
                check_waiting("a tick");
                for (int q = 0; q < 3; ++q) {
                    bool any = false;
                    for (auto& [kk, s] : running) if (kk.first == q) any = true;
                    if (any) continue;
                    auto& per = vnode::Access::active_uploads_per_peer(node);
                    auto it = per.find(peer_id_to_string(peers[q].id));
                    bool leaked = it != per.end() && it->second > 0;
                    for (auto& [key, st] : vnode::Access::active_uploads(node)) if (st.peer_id == peers[q].id) leaked = true;
                    if (leaked)
                        c.fail(dup_seen[q] ? "C23:duplicate-inflight-upload" : "C23:peer-slot-not-released",
                               "after a tick peer p" + std::to_string(q) + " has no running upload (all acknowledged or timed out) but still occupies an upload slot");
                }
                break;
            }
        }
    }
}
}  // namespace verif
