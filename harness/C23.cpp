// C23 — upload concurrency limits hold and slots are always released (Node, fake peers, virtual time)
#define VERIF_FUZZ_TARGET 1
#include "verif.hpp"
#include "vclock.hpp"
#include "node_access.hpp"

#include <map>
#include <set>

namespace verif {
const PropertyInfo kInfo = {
    "C23", 8, 8, 50,
    "tape -> Node with upload_max_parallel_transfers 0..4, upload_max_transfers_per_peer 0..3 (0 = unlimited), transfer timeout 2..9 s, holding 3 long-lived chunks and one "
    "short-lived chunk; 3 fake peers with sessions on socketpairs. History of REQUEST(peer, chunk) incl. repeats of an in-flight (peer, chunk), unknown and expired chunks; "
    "ACK(peer, chunk, accepted/rejected, also for chunks never sent); advance (to the next transfer timeout exactly / -1ns / +1ns / random); tick. Oracle (black box, from the "
    "decrypted frames): an upload (peer, chunk) is running from the CHUNK frame until that peer's ACK for the chunk or start+timeout; at every CHUNK emission the number of running "
    "uploads is <= the overall limit and the peer's running uploads <= the per-peer limit (when non-zero); a REQUEST for an unknown/expired chunk is answered with a negative ACK; "
    "after a tick, a peer with no running upload has no in-use slot (per-peer counter absent/zero, no active entry). A repeated CHUNK for an in-flight (peer, chunk) counts as the "
    "same upload. Non-trivial: a repeated in-flight (peer, chunk) with per-peer limit != 1, or a timeout release."};

namespace {
using namespace ephemeralnet;
using TP = std::chrono::steady_clock::time_point;
using std::chrono::seconds;
using std::chrono::nanoseconds;
TP now() { return std::chrono::steady_clock::now(); }
ChunkId cid(int i) { ChunkId c{}; Prng g(2300 + i); g.fill(c.data(), c.size()); c[0] = static_cast<std::uint8_t>(0xC0 + i); return c; }
}  // namespace

void run_case(Ctx& c) {
    vclock::Frozen frozen(c.tape.header_seed());
    vnode::silence_streams();
    const Tape& t = c.tape;
    Config cfg;
    cfg.upload_max_parallel_transfers = static_cast<std::uint16_t>(t.h(0) % 5);
    cfg.upload_max_transfers_per_peer = static_cast<std::uint16_t>(t.h(1) % 4);
    cfg.upload_transfer_timeout = seconds(2 + t.h(2) % 8);
    cfg.upload_reconsider_interval = seconds(t.h(3) % 3);
    cfg.min_manifest_ttl = seconds(2);
    cfg.max_manifest_ttl = seconds(86400);
    cfg.cleanup_interval = seconds(3600);
    cfg.key_rotation_interval = seconds(3600);
    cfg.announce_pow_difficulty = 0;
    cfg.handshake_pow_difficulty = 0;
    cfg.nat_stun_enabled = false;
    cfg.relay_enabled = false;
    cfg.identity_seed = 23;
    Node node(vnode::make_id(81, 0xA9), cfg);
    const std::size_t overall = node.config().upload_max_parallel_transfers, per_peer = node.config().upload_max_transfers_per_peer;
    const auto timeout = node.config().upload_transfer_timeout;
    c.note("overall=%zu per_peer=%zu timeout=%llds", overall, per_peer, (long long)timeout.count());
    vnode::FakePeer peers[3];
    for (int i = 0; i < 3; ++i)
        if (!peers[i].attach(node, vnode::make_id(90 + i, static_cast<std::uint8_t>(0x20 + i)), 900 + i)) c.fail("C23:harness-error", "attach failed");
    vnode::QuiesceGuard guard{node, {&peers[0], &peers[1], &peers[2]}};
    // chunks 0..2 long lived, 3 short lived (10 s), 4 never stored
    for (int k = 0; k < 3; ++k) node.store_chunk(cid(k), Prng(40 + k).bytes(32), seconds(80000));
    node.store_chunk(cid(3), Prng(43).bytes(32), seconds(10));
    const TP short_deadline = now() + seconds(10);

    std::map<std::pair<int, int>, TP> running;   // (peer, chunk) -> start
    bool dup_seen[3] = {false, false, false};
    auto prune_model = [&]() {
        for (auto it = running.begin(); it != running.end();) it = (now() - it->second >= timeout) ? running.erase(it) : std::next(it);
    };
    auto chunk_index = [&](const ChunkId& id) { for (int k = 0; k < 5; ++k) if (cid(k) == id) return k; return -1; };

    // returns per peer whether a negative ack for `want_chunk` was seen
    auto observe = [&](int req_peer, int want_chunk) {
        bool nack = false;
        for (int p = 0; p < 3; ++p) {
            for (auto& msg : peers[p].drain()) {
                if (auto* cp = std::get_if<protocol::ChunkPayload>(&msg.payload)) {
                    int k = chunk_index(cp->chunk_id);
                    prune_model();
                    auto key = std::make_pair(p, k);
                    if (running.count(key)) {
                        dup_seen[p] = true;
                        if (per_peer != 1) c.nt("repeated_inflight_upload");
                    }
                    running[key] = now();
                    std::size_t total = running.size(), mine = 0;
                    for (auto& [kk, s] : running) if (kk.first == p) ++mine;
                    if (overall > 0 && total > overall) c.fail("C23:overall-limit-exceeded", std::to_string(total) + " uploads running, limit " + std::to_string(overall));
                    if (per_peer > 0 && mine > per_peer) c.fail("C23:per-peer-limit-exceeded", std::to_string(mine) + " uploads running for one peer, limit " + std::to_string(per_peer));
                    c.label("chunk_sent");
                } else if (auto* ap = std::get_if<protocol::AcknowledgePayload>(&msg.payload)) {
                    if (p == req_peer && !ap->accepted && chunk_index(ap->chunk_id) == want_chunk) nack = true;
                }
            }
        }
        return nack;
    };

    for (std::size_t i = 0; i < t.nrec(); ++i) {
        Rec r = t.r(i);
        int p = r.a(0) % 3;
        switch (r.op() % 8) {
            case 0: case 1: case 2: {
                int k = r.a(1) % 8;
                if (k >= 5) k = k - 5;  // bias to the long-lived chunks
                if ((r.a(2) & 3) == 0 && !running.empty()) {  // repeat an in-flight (peer, chunk)
                    auto it = running.begin();
                    std::advance(it, r.a(3) % running.size());
                    p = it->first.first;
                    k = it->first.second;
                }
                c.note("|req(p%d,c%d)", p, k);
                protocol::Message m{};
                m.type = protocol::MessageType::Request;
                m.payload = protocol::RequestPayload{cid(k), peers[p].id};
                peers[p].deliver(m);
                bool nack = observe(p, k);
                bool unservable = k == 4 || (k == 3 && now() >= short_deadline);
                if (unservable) {
                    c.label("unservable_request");
                    if (!nack) c.fail("C23:no-negative-ack", "a request for a chunk the node cannot serve (c" + std::to_string(k) + ") got no negative ACK");
                }
                break;
            }
            case 3: case 4: {
                int k = r.a(1) % 5;
                if ((r.a(2) & 1) && !running.empty()) {  // ack something actually in flight
                    auto it = running.begin();
                    std::advance(it, r.a(3) % running.size());
                    p = it->first.first;
                    k = it->first.second;
                }
                bool accepted = (r.a(4) & 1) != 0;
                c.note("|ack(p%d,c%d,%d)", p, k, accepted);
                prune_model();
                running.erase({p, k});
                protocol::Message m{};
                m.type = protocol::MessageType::Acknowledge;
                protocol::AcknowledgePayload a{};
                a.chunk_id = cid(k);
                a.peer_id = peers[p].id;
                a.accepted = accepted;
                m.payload = a;
                peers[p].deliver(m);
                observe(-1, -1);
                break;
            }
            case 5: {
                TP next = TP::max();
                for (auto& [kk, s] : running) next = std::min(next, s + timeout);
                unsigned kind = r.a(1) % 5;
                if (next == TP::max() && kind < 3) kind = 3;
                nanoseconds d{0};
                switch (kind) {
                    case 0: d = next - now(); break;
                    case 1: d = next - now() - nanoseconds(1); break;
                    case 2: d = next - now() + nanoseconds(1); break;
                    case 3: d = std::chrono::milliseconds(1 + r.a16(2) % 3000); break;
                    case 4: d = seconds(1 + r.a(2) % 12); break;
                }
                if (d.count() < 0) d = nanoseconds(0);
                c.note("|adv(%lld)", static_cast<long long>(d.count()));
                std::size_t before = running.size();
                vclock::advance(d);
                prune_model();
                if (running.size() < before) c.nt("timeout_release");
                break;
            }
            case 6: case 7: {
                c.note("|tick");
                node.tick();
                observe(-1, -1);
                prune_model();
                for (int q = 0; q < 3; ++q) {
                    bool any = false;
                    for (auto& [kk, s] : running) if (kk.first == q) any = true;
                    if (any) continue;
                    auto& per = vnode::Access::active_uploads_per_peer(node);
                    auto it = per.find(peer_id_to_string(peers[q].id));
                    bool leaked = it != per.end() && it->second > 0;
                    for (auto& [key, st] : vnode::Access::active_uploads(node)) if (st.peer_id == peers[q].id) leaked = true;
                    if (leaked)
                        c.fail(dup_seen[q] ? "C23:duplicate-inflight-upload" : "C23:peer-slot-not-released",
                               "after a tick peer p" + std::to_string(q) + " has no running upload (all acknowledged or timed out) but still occupies an upload slot");
                }
                break;
            }
        }
    }
}
}  // namespace verif
