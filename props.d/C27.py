from propdefs import rc, fuzz, script, W

PROP = {
 'title': 'A configured control token gates STORE, FETCH and STOP',
 'level': 'exploration',
 'technique': 'property-based testing of an in-process daemon::ControlServer over loopback TCP with a raw client written in the harness; generated token variants, header orders and header-name case; before/after state snapshots (rapidcheck tapes + libFuzzer)',
 'design_ref': 'DESIGN.md 5/C27',
 'level_text': 'A Node with a generated control token (1..40 printable bytes) and 1..2 stored chunks serves STORE, FETCH (streamed and OUT:<scratch path>, of a local chunk and of a '
               'manifest published by another node) and STOP requests whose TOKEN header is absent, exact, random, a proper prefix / suffix, extended, case-flipped, empty, one bit off '
               'at any position, or sent under another header name; header lines are shuffled and header names case-mixed. A request is authorised iff the TOKEN value equals the '
               'configured token byte for byte (computed in the harness). Unauthorised requests must be answered STATUS:ERROR (authentication CODE when the request would otherwise '
               'succeed) and leave chunk set, manifest cache, swarm plans, shard records, pending fetches, the scratch directory, the stop callback and the transport listener '
               'untouched; the next PING must be answered. Authorised requests must have their normal effect.',
 'level_note': 'Trusted base: the raw client in harness/control_harness.hpp, NodeTestAccess state reads, the interposed clock (31 s are skipped after every request so the rate limiter '
               'never interferes). The authentication CODE is demanded only for canonical header names and a local target; for the rest only refusal and absence of effects. '
               'The end-to-end sample against a real `eph serve` process planned in DESIGN is not implemented; the in-process server is the same library class the daemon runs.',
 'assumptions': ['ControlServer is exercised in-process with the harness as its only client (one connection at a time)',
                 'tokens are printable ASCII without blanks; duplicate TOKEN headers are not generated'],
 'confirm_replays': 3,
 'tiers': {'quick': [rc(600)],
           'thorough': [rc(4000, W), fuzz(120, 4, max_len=8 + 8 * 16)]}}
