from propdefs import rc, fuzz, script, W

PROP = {
 'title': 'Upload concurrency limits hold and slots are always released',
 'level': 'exploration',
 'technique': 'stateful property testing of a real Node with three fake peers on socketpairs under a virtual clock; black-box upload accounting from the decrypted wire frames plus slot-table inspection after ticks (rapidcheck tapes + libFuzzer)',
 'design_ref': 'DESIGN.md 5/C23',
 'level_text': 'Generated REQUEST/ACK/timeout/tick histories (including repeated requests for an in-flight (peer, chunk), acknowledgements for chunks never sent, unknown and expired chunks) '
               'under every combination of overall limit 0..4 and per-peer limit 0..3; the harness decrypts every frame the node sends, keeps the set of running uploads, checks both limits '
               'at each CHUNK emission, requires a negative ACK for unservable requests and, after each tick, that a peer without running uploads holds no upload slot.',
 'level_note': 'Trusted base: the running-upload model in harness/C23.cpp (a repeated CHUNK for an in-flight (peer, chunk) counts as the same upload; an upload ends at the ACK or at '
               'start+timeout, the earliest instant the node may reuse the slot). Slot tables are read through NodeTestAccess.',
 'assumptions': ['clocks interposed', 'every frame the node writes to a peer socket is observed by the harness before the next operation'],
 'tiers': {'quick': [rc(1500)],
           'thorough': [rc(5000, W), fuzz(180, 8, max_len=8 + 8 * 50)]}}
