from propdefs import rc, fuzz, script, W

PROP = {
 'title': 'The relay never crashes and releases everything once clients leave',
 'level': 'exploration',
 'technique': 'black-box stateful property-based testing of the real eph-relay-server process (Hypothesis; /proc/<pid>/fd and re-registration as release oracle) + tape fuzzing (libFuzzer + rapidcheck, ASan/UBSan) of the real RelayServer + EventLoop stepped from the harness thread over loopback TCP; resource oracle from the '
              'read-only verif_* counters and /proc/self/fd',
 'design_ref': 'DESIGN.md 5/C26',
 'level_text': 'Per input 1-6 real TCP clients perform arbitrary writes (random binary up to 64 KiB, 4 KiB-70 000-byte lines with and without terminator, LF/CRLF runs, several commands in '
               'one write, REGISTER/CONNECT with non-hex, 100 000-character, missing or doubled arguments, identity fragments, NUL bytes), half-close, reset and close in any order, '
               'interleaved with the protocol-aware actions of C25 so that registered, claimed, awaiting-identity and bridged sessions exist when the bytes arrive; finally a fresh client '
               'must still be served and all clients leave in a generated order (at once / forward / reverse / half-close first; FIN or RST). Oracle: no sanitizer report, no exception, no '
               'runaway loop inside one event-loop batch, and after the last disconnect verif_session_count() == 0, verif_registration_count() == 0 and /proc/self/fd equals the idle server\'s '
               'descriptor set. Coverage-guided fuzzing over the action tape is the natural level for a crash/leak claim over all byte streams.',
 'level_note': 'Black-box part (C26_hyp.py): sequences of up to 12 client steps (progress towards bridges, malformed and very long lines, leaving by close / reset / half-close at any stage) against one real sanitizer-built relay process per worker; once every client has gone the process must be alive, hold as many open descriptors as before the case, let a fresh client register every id used in the case and bridge a fresh connector to it. '
               'Trusted base: ASan/UBSan, the two read-only counters (hook commit bd56d71) and /proc/self/fd. A runaway loop is recognised by allocation count (> 200 000 allocations or > 64 MiB in '
               'one batch; legitimate batches stay below 100 / 2 MiB) through a replacement operator new that throws into the loop; a loop that never allocates is left to the 60 s watchdog. '
               'Memory growth from unread backlog (slow consumers) and real multi-threaded timing are outside the claim. The routing behaviour is judged by C25, not here.',
 'assumptions': ['SIGPIPE is ignored in the relay process (as src/relay/main.cpp does)',
                 'the harness process opens no descriptors of its own during a case other than the client sockets it closes again'],
 'confirm_replays': 2,
 'extra_targets': ['build/bin/eph-relay-server'],
 'replay_cmd': ['{ROOT}/harness/C26_hyp.py', '--replay', '{path}'],
 'tiers': {'quick': [rc(5000),
                     script(['{ROOT}/harness/C26_hyp.py', '--cases', '240', '--workers', '4'], name='hyp', label='Hypothesis black-box (real eph-relay-server process, descriptor and registration release)', timeout_s=900)],
           'thorough': [rc(10000, W), fuzz(240, 8, max_len=8 + 6 * 80),
                        script(['{ROOT}/harness/C26_hyp.py', '--cases', '4000', '--workers', '8'], name='hyp', label='Hypothesis black-box (real eph-relay-server process, descriptor and registration release)', timeout_s=3600)]}}
