from propdefs import rc, fuzz, script, W

PROP = {
 'title': 'Swarm plans hand every shard to exactly one eligible provider, evenly',
 'level': 'exploration',
 'technique': 'model-based property testing: harness-side model of the routing table and the provider-count formula from the statement, against SwarmCoordinator::compute_plan under a virtual clock (rapidcheck tapes + libFuzzer)',
 'design_ref': 'DESIGN.md 5/C22',
 'level_text': 'Generated routing-table histories (register/add_contact/refresh/self/clock advance, expiries 1 ns around "now"), manifests (0..300 shards, duplicate labels, '
               'thresholds 0..255), load snapshots and swarm configuration (0..65535) are planned; the plan must have exactly min(c, s, max(target, min(max(min_providers, '
               'threshold), c, s))) providers, pairwise distinct, live, not self, each with >= 1 shard, shard-label multiset equal to the manifest, counts differing by <= 1.',
 'level_note': 'c is computed by the model as the max(sample,1) XOR-closest unexpired ids minus self_id. When the formula gives 0 providers the plan must be empty. At most 16 '
               'distinct ids per k-bucket are generated so the table never evicts (eviction is C07). Preference order among candidates (scores) is not judged.',
 'assumptions': ['a contact with expires_at == now is not live', 'no k-bucket overflow in generated tables', 'provider count 0 => empty plan is the intended reading'],
 'tiers': {'quick': [rc(15000)],
           'thorough': [rc(150000, W), fuzz(120, 4, max_len=16 + 8 * 64)]}}
