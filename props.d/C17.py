from propdefs import rc, fuzz, script, W

PROP = {
 'title': 'Manifests round-trip, and unrepresentable manifests are refused',
 'level': 'exploration',
 'technique': 'property-based testing against a harness-side manifest model (rapidcheck tapes): round trip compared field by field, representability decided from the property statement',
 'design_ref': 'DESIGN.md 5/C17',
 'level_text': 'Generated manifests (0..300 shards, 0..260 metadata / discovery / fallback entries, string lengths aimed at 255/256 and 65535/65536, expiry anywhere in the 64-bit '
               'nanosecond range incl. pre-1970 and sub-second, empty/non-empty schemes, digest on/off) are encoded and decoded; the result is compared with the model. Manifests '
               'with any count > 255 or over-long string must make encode_manifest throw.',
 'level_note': 'Weaker readings: expiry must be a whole second less than 1 s away (floor or truncation both pass); attestation digest is compared only when the flag is set; any '
               'exception type counts as refusal; an encoder refusing a representable manifest is only counted, not failed. Byte-for-byte agreement with the independent encoder '
               'is reported as a label, not asserted, because the wire layout is not part of the statement. Second compiler: the same tapes also run against a g++ -O2 ASan/UBSan build of the code under test (engine \'tape-rc (second compiler…)\'), because the two compilers instrument and optimise undefined behaviour differently (e.g. abs(INT64_MIN) is only reported by g++\'s UBSan, and clang can fold such UB into a correct-looking result); failing tapes of that engine are kept as *.gcc.tape and replayed with that build.',
 'assumptions': ['system_clock ticks are 64-bit nanoseconds (static_assert)', 'limits are those in the statement: 255 entries per list, 8/16-bit string length fields'],
 'tiers': {'quick': [rc(6000), rc(6000, suffix='_gcc')], 'thorough': [rc(60000, W), rc(60000, 4, suffix='_gcc')]}}
