from propdefs import rc, fuzz, script, W

PROP = {
 'title': 'No remote input can crash the node or the daemon',
 'level': 'exploration',
 'technique': 'black-box stateful property-based testing of the real `eph serve` process (Hypothesis: generated control/transport client behaviours incl. connection resets, liveness oracle) + structure-aware fuzzing of the three remote surfaces (inbound connection bytes, validly signed protocol messages with adversarial contents, control-plane requests) of a real Node + ControlServer under ASan/UBSan with a liveness probe after every case (rapidcheck tapes + libFuzzer on the same case function)',
 'design_ref': 'DESIGN.md 5/C35',
 'level_text': 'Per case one surface: (a) identity + handshake frames with generated lengths/types/truncations on an adopted inbound socket; (b) a fake peer with a registered session key '
               'delivers signed ANNOUNCE/CHUNK/REQUEST/ACK messages whose manifests carry duplicate / zero share indices, threshold 0/255, 255 shards, expired or far-future expiry, huge TTLs, '
               'plus type/payload mismatches, garbage and arbitrary handshake keys, interleaved with ticks; (c) control requests with adversarial OUT paths, manifests, lengths, TTLs, long '
               'lines and raw bytes under several stream caps. Any sanitizer report, any exception leaving a handler (std::terminate on a daemon thread), any hang, or a failed liveness probe '
               '(PING unanswered, benign peer not served) is a violation.',
 'level_note': 'Black-box part (C35_hyp.py): sequences of up to 8 steps against one real sanitizer-built daemon per worker; every step is a control request or a transport '
               'connection (up to a valid handshake + signed REQUEST) that leaves by reading, closing or resetting (RST) at a generated point, 1..4 at once; after every step the process must '
               'still run, answer PING and accept transport connections, with no sanitizer report in its log. Timing-dependent: a failing sequence is kept as found when it does not reproduce while shrinking. '
               'Crashes abort the worker: the runner leaves crash.tape and the driver derives the signature from the sanitizer / terminate message on replay (not shrunk). Data poisoning (a bogus '
               'manifest overriding records for a held chunk) is not judged. PAYLOAD-LENGTH values above 256 MiB are only generated while a stream cap is configured (with the cap disabled the '
               'request-level exception guard is what protects the daemon; an allocation of 2^64 bytes would be reported by ASan itself rather than thrown).',
 'assumptions': ['handlers are invoked on the harness thread (transport handler through NodeTestAccess, inbound connection through adopt_inbound_socket); the control server runs its own accept thread',
                 'endpoints in generated announces are empty or closed loopback ports, so no case waits on the network'],
 'watchdog_s': 120,
 'extra_targets': ['build/bin/eph'],
 'replay_cmd': ['{ROOT}/harness/C35_hyp.py', '--replay', '{path}'],
 'tiers': {'quick': [rc(1200),
                     script(['{ROOT}/harness/C35_hyp.py', '--cases', '64', '--workers', '4'], name='hyp', label='Hypothesis black-box (real eph serve, abusive clients)', timeout_s=900)],
           'thorough': [rc(6000, W), fuzz(300, 8, max_len=8 + 16 * 14),
                        script(['{ROOT}/harness/C35_hyp.py', '--cases', '1600', '--workers', '8'], name='hyp', label='Hypothesis black-box (real eph serve, abusive clients)', timeout_s=3600)]}}
