from propdefs import rc, fuzz, script, W

PROP = {
 'title': 'Auto-advertise never publishes non-routable addresses unless allowed',
 'level': 'exploration',
 'technique': 'property-based testing with addresses generated per RFC 6890 / RFC 4291 class as binary values and rendered canonically; reference routability table; STUN result injected through the existing NAT test hook into a real Node (rapidcheck tapes)',
 'design_ref': 'DESIGN.md 5/C34',
 'level_text': 'Addresses are drawn per special-purpose class (every IPv4 block the property lists incl. both halves of 198.18/15 and block edges, IPv6 ::, ::1, ULA, link-local, '
               'documentation, multicast, IPv4-mapped forms of every IPv4 class, global unicast) and fed as the STUN result under every auto-advertise mode, private-allow setting, '
               'STUN success/failure and manual-endpoint presence. The pure candidate builder and a real Node (start_transport, then store_chunk) are checked: nothing non-manual '
               'that is published (advertised endpoints, manifest transport hints) may be non-routable unless allowed, nothing auto-discovered with mode off, nothing while warn mode '
               'sees a conflict.',
 'level_note': 'Trusted base: the reference table in harness/C34.cpp (matched on binary addresses via inet_pton). Host names and manual entries are never judged; the control host is fixed '
               'to 127.0.0.1. Only canonical inet_ntop text forms are generated, as the property states.',
 'assumptions': ['the STUN-reported address reaches the node through NatTraversalManager::set_test_hooks exactly as a real STUN answer would'],
 'tiers': {'quick': [rc(6000)],
           'thorough': [rc(40000, W)]}}
