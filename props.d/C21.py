from propdefs import rc, fuzz, script, W

PROP = {
 'title': 'Announces change state only when admissible and within the throttle',
 'level': 'exploration',
 'technique': 'stateful property testing of a real Node under a virtual clock: single-defect announce generator, state-digest observation, reference lockout machine and throttle invariants over the accepted sub-sequence (rapidcheck tapes + libFuzzer)',
 'design_ref': 'DESIGN.md 5/C21',
 'level_text': 'Timed announce histories from three senders under generated throttle configurations; every announce is built valid (fresh manifest from a publisher node, PoW solved against an '
               'independent restatement of the digest) and then given at most one defect. A digest of all announce-derived state is taken around each delivery; soundness of every state '
               'change, the per-sender interval/burst invariants and completeness in clean situations are asserted, with gaps placed 1 ns either side of the interval, window, 120 s and 180 s edges.',
 'level_note': 'Trusted base: OpenSSL SHA-256 for the PoW restatement; the lockout model counts only rejections outside a lock interval and requires the three rejections to span < 120 s '
               '(exact 120 s / 180 s instants are not asserted). Completeness is asserted only for senders with no rejection in the last 300 s.',
 'assumptions': ['clocks interposed', 'senders have session keys but no live session (fetch dispatch fails locally, no network)'],
 'tiers': {'quick': [rc(1500)],
           'thorough': [rc(10000, W), fuzz(180, 8, max_len=8 + 8 * 40)]}}
