from propdefs import rc, fuzz, script, W

PROP = {'title': 'Fetch output stays inside the chosen directory',
 'level': 'exploration',
 'technique': 'property-based testing of the name sanitisers in-process (rapidcheck tapes + libFuzzer: sanitize_filename_hint, Node::store_chunk, control STORE, and the whole '
              'CLI run in-process with a directory-tree diff) plus black-box Hypothesis runs of the real `eph fetch` binary',
 'design_ref': 'DESIGN.md 5/C31',
 'extra_targets': ['build/bin/eph'],
 'confirm_replays': 3,
 'replay_cmd': ['{ROOT}/harness/C31_hyp.py', '--replay', '{path}'],
 'level_text': 'Filename metadata strings are built from a grammar aimed at the sanitisers (traversal sequences, both separators, reserved characters, control bytes incl. NUL/DEL, '
               'dots around control bytes, > 255 bytes, non-UTF-8, absolute paths of real directories). The predicate of the property statement is evaluated on every name the node '
               'records (manifest read back by an independent decoder) and on the directory tree after `eph fetch` into a directory chosen six different ways.',
 'level_note': 'Trusted base: the predicate name_ok (harness), the independent manifest codecs (manifest_gen.hpp / cli_common.py), the tree diff. sanitize_filename_hint is only '
               'required not to yield ".", ".." or a name with "/" (POSIX separator) or longer than 255 bytes: it feeds store_chunk, which applies the full rule. Completeness '
               '(a harmless name is kept) is recorded as a label, not asserted.',
 'assumptions': ['POSIX filesystem semantics (the only path separator is "/"); names are bytes', 'the honest local daemon of the black-box part is a harness fake speaking the control protocol'],
 'tiers': {'quick': [rc(2500), script(['{ROOT}/harness/C31_hyp.py', '--cases', '120', '--workers', '4'], name='hyp', label='Hypothesis black-box (eph fetch into a directory)', timeout_s=900)],
           'thorough': [rc(12000, W), fuzz(120, 4, max_len=8 + 4 * 10),
                        script(['{ROOT}/harness/C31_hyp.py', '--cases', '1500', '--workers', '8'], name='hyp', label='Hypothesis black-box (eph fetch into a directory)', timeout_s=3600)]}}
