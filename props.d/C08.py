from propdefs import rc, fuzz, script, W

PROP = {'title': 'SHA-256 and HMAC-SHA256 match the standards for every input',
 'level': 'exploration',
 'technique': 'property-based differential testing against OpenSSL (rapidcheck tapes + libFuzzer on the same case function)',
 'design_ref': 'DESIGN.md 5/C08',
 'level_text': 'Generated messages, update partitions, keys and candidate tags are compared with OpenSSL libcrypto; boundary lengths around the '
               '55/56/64-byte padding edges and keys longer than one block are generated on purpose. Exploration is the right level: the property is '
               'a pure input/output equality against a standard.',
 'level_note': 'Trusted base: OpenSSL 3 EVP SHA-256/HMAC (self-checked against FIPS 180-4 / RFC 4231 vectors each run). A hasher object is never '
               'reused after finalize (not claimed by the property). Second compiler: the same tapes also run against a g++ -O2 ASan/UBSan build of the code under test (engine \'tape-rc (second compiler…)\'), because the two compilers instrument and optimise undefined behaviour differently (e.g. abs(INT64_MIN) is only reported by g++\'s UBSan, and clang can fold such UB into a correct-looking result); failing tapes of that engine are kept as *.gcc.tape and replayed with that build.',
 'assumptions': ['OpenSSL libcrypto is a correct SHA-256/HMAC-SHA256 reference', 'hasher objects are not reused after finalize()'],
 'tiers': {'quick': [('rc', {'cases': 20000, 'workers': 1}), rc(20000, suffix='_gcc')],
           'thorough': [('rc', {'cases': 60000, 'workers': 16}), ('fuzz', {'secs': 120, 'workers': 4, 'max_len': 268}), rc(60000, 4, suffix='_gcc')]}}
