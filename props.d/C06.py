from propdefs import rc, fuzz, script, W

PROP = {'title': 'Provider lookups return exactly the live, non-withdrawn providers',
 'level': 'exploration',
 'technique': 'stateful model-based property testing under a harness-owned virtual clock (rapidcheck tapes + libFuzzer)',
 'design_ref': 'DESIGN.md 5/C06',
 'level_text': 'Generated add/withdraw/find/sweep/advance histories with mixed per-announcement TTLs are run against KademliaTable and an explicit '
               'reference model; the live provider set is compared after every operation, at exact expiry instants (deadline, +-1 ns).',
 'level_note': 'Trusted base: the reference model in harness/C06.cpp (written from the property statement) and the interposed clock. Ties at the '
               '20-provider cut are resolved by observation (any minimum-expiry element may be dropped).',
 'assumptions': ['steady_clock is the only time source of KademliaTable (interposed by the harness)'],
 'tiers': {'quick': [('rc', {'cases': 4000, 'workers': 1})],
           'thorough': [('rc', {'cases': 12000, 'workers': 16}), ('fuzz', {'secs': 180, 'workers': 8, 'max_len': 644})]}}
