from propdefs import rc, fuzz, script, W

PROP = {
 'title': 'Daemon threads never race on shared node state',
 'level': 'exploration',
 'technique': 'generated multi-daemon workloads under ThreadSanitizer (happens-before race detection); reports reduced to owner-class signatures',
 'design_ref': 'DESIGN.md 5/C36',
 'level_text': 'Workload tapes (a pure function of VERIF_SEED) are decoded by build/bin/C36_tsan (g++ -fsanitize=thread against a TSan build of the '
               'repository) into 2-4 in-process daemons that reproduce the thread structure of `eph serve`: a main thread that starts the transport and '
               'ticks under the node mutex and finally runs the shutdown sequence, a real ControlServer, the real transport accept thread and one '
               'reader thread per session; 1-3 control-client threads (STORE/FETCH/LIST/STATUS/DEFAULTS/METRICS/DIAGNOSTICS/PING/STOP over TCP) and '
               '0-3 ghost peers that speak the transport protocol over TCP (PoW handshake, re-handshake, announce with and without assigned shards, '
               'request, chunk, ack, garbage, abrupt close) with generated delays, bootstrap topology, key-rotation interval, handshake cooldown, PoW '
               'difficulties, TTLs and tick cadence; a scaled clock (1x/8x/32x) makes key rotation, cooldown expiry, TTL expiry and sweeps happen '
               'inside a workload.  Every ThreadSanitizer data-race report is reduced to the owners of the innermost stateful repository frames of '
               'its two stacks; a signature that is not a listed known finding is a violation whose replay is the (reduced) workload tape.',
 'level_note': 'Evidence of races on executed code only: absence of a report says nothing about schedules or code the workloads did not reach, and '
               'ThreadSanitizer treats all sockets as one synchronisation object, which hides some races between threads that exchange bytes.  '
               'Signatures are class-wide (<Class>::*), member-function-wide for Node; a new race inside a class that already has a known finding is '
               'therefore not reported separately.  Exit-time destruction of the Node while a detached reader thread has not been joined is '
               'classified separately and not judged.  Trusted base: ThreadSanitizer (gcc 12 libtsan), the scaled clock interposition, the report '
               'parser in harness/C36_run.py.',
 'assumptions': ['daemons of one workload share a process (per-process globals of the repository are atomics or mutex-protected)',
                 'SIGPIPE is ignored in the workload process (eph serve leaves it at default)',
                 'a workload that does not finish within 120 s, or whose listening ports are taken, is inconclusive'],
 'needs_rc': False,
 'extra_targets': ['build/bin/C36_tsan'],
 'confirm_replays': 1,
 'replay_cmd': ['{ROOT}/harness/C36_run.py', '--replay', '{path}', '--verbose'],
 'tiers': {'quick': [script(['{ROOT}/harness/C36_run.py', '--workloads', '6', '--jobs', '1', '--reduce-trials', '6'],
                            name='tsan', label='TSan workloads (C36_tsan)', timeout_s=900)],
           'thorough': [script(['{ROOT}/harness/C36_run.py', '--workloads', '160', '--jobs', '8', '--reduce-trials', '16'],
                               name='tsan', label='TSan workloads (C36_tsan)', timeout_s=3600)]}}
