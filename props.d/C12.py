from propdefs import rc, fuzz, script, W

PROP = {
 'title': 'A mutual handshake yields one shared session key',
 'level': 'exploration',
 'technique': 'property-based testing of two real Node objects and the KeyExchange functions against a 128-bit modexp reference, OpenSSL SHA-256/HMAC and a restated key derivation; metamorphic change of one identity; exhaustive edge sweep once per run',
 'design_ref': 'DESIGN.md 5/C12',
 'level_text': "Per case two real Nodes (identity seeds uniform or boundary, or unseeded; peer ids incl. all-zero, all-0xFF, equal ids; PoW difficulty 0..8) accept each "
               "other's handshake in generated order; both session keys must exist, be equal, and equal HMAC-SHA256(SHA256(be32(g^ab)), be32(min pub)||be32(max pub)) "
               "computed with the references; a third identity with a different (or the same) public key must give a different (the same) key; a candidate public from "
               "{0,1,2,3,p-2,p-1,p,p+1,2^31,2^32-1} or uniform is offered from a fresh peer id with a reference-solved PoW and must be refused iff outside (1,p). Records "
               "drive the pure layer: compute_public / derive_shared_secret for scalars in [2,p-2] against the reference, DH agreement for every pair, validate_public "
               "<=> 1 < x < p. Once per run validate_public is swept over every value within 2^16 of 0, p, 2^31, 2^32 and compute_public for scalars within 2^15 of 2 and p-2.",
 'level_note': 'Trusted base: refs::modexp (unsigned __int128), OpenSSL SHA-256/HMAC. The session-key derivation formula is restated from the design and docs; a legitimate '
               'KDF change would need the reference updated. The private scalar is read through test::NodeTestAccess (read-only).',
 'assumptions': ['session key = HMAC-SHA256(SHA256(be32(g^ab mod p)), be32(min pub)||be32(max pub))', 'handshake PoW difficulty <= 8 in generated configurations',
                 'steady_clock and random_device interposed (frozen) during a case'],
 'tiers': {'quick': [rc(5000)],
           'thorough': [rc(40000, W)]}}
