from propdefs import rc, fuzz, script, W

PROP = {
 'title': 'Structured log records are single, faithful JSON lines',
 'level': 'exploration',
 'technique': 'round-trip property testing: StructuredLogger output captured from std::clog and decoded by an independent strict RFC 8259 / RFC 3629 decoder written in the harness (rapidcheck tapes + exhaustive single-character sweep + libFuzzer)',
 'design_ref': 'DESIGN.md 5/C37',
 'level_text': 'Event names and 0..8 fields (duplicate names allowed) are built from ASCII, the JSON short-escape set, every C0 byte incl. NUL, DEL, 2/3/4-byte UTF-8 at all length '
               'edges, U+2028/2029, injection snippets and 65536-code-point strings, at all three levels; the record must be exactly one LF-terminated line, valid strict JSON, and '
               'event, level and the ordered (name, value) list must decode to exactly what was logged. Once per process every byte 0x00..0x7F, every edge code point and every '
               'snippet is logged alone / embedded / doubled in each position (1656 records).',
 'level_note': 'Trusted base: the harness decoder (self-checked each run on accept/reject vectors; cross-checked once by hand against Python json.loads on 4656 captured lines). '
               'Only LF counts as a line break. The "ts" member is only required to be valid JSON. Inputs are valid UTF-8 as the property states. Second compiler: the same tapes also run against a g++ -O2 ASan/UBSan build of the code under test (engine \'tape-rc (second compiler…)\'), because the two compilers instrument and optimise undefined behaviour differently (e.g. abs(INT64_MIN) is only reported by g++\'s UBSan, and clang can fold such UB into a correct-looking result); failing tapes of that engine are kept as *.gcc.tape and replayed with that build.',
 'assumptions': ['logged strings are valid UTF-8', 'a JSON object with repeated member names is read as an ordered list of pairs'],
 'exhaustive_part': 'every byte 0x00..0x7F, edge code points and snippets logged alone/embedded/doubled in event, field name and field value (1656 records) every run',
 'tiers': {'quick': [rc(15000), rc(8000, suffix='_gcc')],
           'thorough': [rc(150000, W), fuzz(60, 2, max_len=6 + 8 * 8), rc(150000, 4, suffix='_gcc')]}}
