from propdefs import rc, fuzz, script, W

PROP = {
 'title': 'Proof-of-work checks accept exactly the nonces that meet the target',
 'level': 'exploration',
 'technique': 'property-based differential + metamorphic testing against an independent reference (OpenSSL SHA-256 over a harness-written field encoding, bit-loop zero count); exhaustive enumeration for the leading-zero counters (rapidcheck tapes + libFuzzer)',
 'design_ref': 'DESIGN.md 5/C19',
 'level_text': 'Per case one surface (handshake node+CLI / announce / store / bootstrap token) with generated field values (boundary ids, keys, TTLs incl. negative and >= 2^32, sizes, '
               'strings incl. empty / NUL / block-edge lengths, shard lists); every validator is compared with the reference verdict for solver nonces, solver+-1, random and edge nonces, '
               'at the solver difficulty and at L-1, L, L+1, 24, 25, 255 (L = reference zero count, so the last required bit decides in almost every case), and after single-field '
               'metamorphic mutations that keep the nonce. Every nonce returned by compute_handshake_pow, compute_transport_pow (CLI), compute_announce_pow, compute_store_pow and '
               'solve_token_challenge must meet the reference target; the CLI solver is judged by the node validator too. Each run also enumerates 257 zero-prefix lengths x 3 tails x '
               '256 difficulties on the four leading-zero counters, and three precomputed store vectors with >= 25 zero bits so the cap of 24 is observable.',
 'level_note': "Trusted base: OpenSSL SHA-256 and the reference encodings in harness/C19.cpp. Anonymous-namespace helpers are reached through include-the-.cpp shims (no source hooks). "
               "Weaker readings: handshake/announce helpers are capped in Node's Config, not in the helper, so for difficulty > 24 they are asserted only where the capped and uncapped "
               "readings agree; there is no bootstrap-token validator in the tree, so token acceptance is digest_meets_difficulty over SHA-256 of the token material; a solver giving up is "
               "not a violation. Solver difficulty is 0..8 in 90 % of cases, up to 18 rarely.",
 'assumptions': ['OpenSSL libcrypto is a correct SHA-256 reference', 'the field encodings are the ones restated in the harness from the property statement'],
 'exhaustive_part': '257 zero-prefix lengths x 3 tails x 256 difficulties on the four leading-zero counters (every run)',
 'tiers': {'quick': [rc(6000)],
           'thorough': [rc(50000, W), fuzz(120, 4, max_len=21 + 8 * 6)]}}
