from propdefs import rc, fuzz, script, W

PROP = {
 'title': 'Control responses reach the client intact, so list shows every chunk',
 'level': 'exploration',
 'technique': 'property-based testing of daemon::ControlClient against an in-process daemon::ControlServer with a semantic oracle computed from the generated daemon state; sampled runs of the real `eph list` binary (rapidcheck tapes + libFuzzer)',
 'design_ref': 'DESIGN.md 5/C29',
 'level_text': 'Daemon states with 0..8 chunks, 0..4 advertised endpoints (IPv4 / hostname / IPv6 literal, source labels), 0..4 bootstrap nodes, 0..3 warnings taken from the seven '
               'warning templates in the sources, conflict flag and host / directory strings with blanks, colons and backslashes; per record one ControlClient::send of LIST, STATUS, '
               'DEFAULTS, METRICS, DIAGNOSTICS, PING, STORE, FETCH stream or an unsupported command. The ControlResponse must carry the success flag, CODE, every scalar field, '
               'one line per live chunk / endpoint / bootstrap node / warning, no other key, and byte-identical payloads (FETCH: the stored plaintext incl. 70 kB chunks; METRICS: '
               'length and every request counter). In 1/64 of the quick cases (1/16 thorough) `eph --control-port N list` is run against the same server and must print one ID= line '
               'per live chunk.',
 'level_note': 'Trusted base: the expected values are computed in harness/C29.cpp from Node::stored_chunks(), Node::config() and the count of requests sent; list lines for endpoints and '
               'bootstrap nodes are matched by content (host:port, label, id), not by exact layout. `eph status` / `eph defaults` output is not parsed. A failed or timed-out `eph` '
               'process is inconclusive, never a violation.',
 'assumptions': ['field values contain no carriage return or line feed other than the separators of the four list-valued fields',
                 'the harness is the only client of the server'],
 'confirm_replays': 3,
 'tiers': {'quick': [rc(800)],
           'thorough': [rc(4000, W), fuzz(120, 4, max_len=16 + 4 * 12)]}}
