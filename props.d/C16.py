from propdefs import rc, fuzz, script, W

PROP = {
 'title': 'Protocol decoding is total and memory-safe',
 'level': 'exploration',
 'technique': 'coverage-guided fuzzing (libFuzzer, ASan+UBSan, exact-size heap inputs) + rapidcheck tapes over the same case function; independent decoder as field oracle',
 'design_ref': 'DESIGN.md 5/C16',
 'level_text': "Raw bytes, patched raw bytes and mutated valid encodings (length fields near 2^31/2^32, 32-bit wrap pairs, +-1, one-byte-short truncation, trailing bytes, "
               "version/type/boolean rewrites), optionally followed by their exact OpenSSL MAC, go to decode and decode_signed. No sanitizer report, no exception; accepted => "
               "encode(decoded) is a prefix of the boolean-canonicalised input, the input is not shorter than its declared fields, fields equal the independent decoder's slices; "
               "signed accept => C13 predicate.",
 'level_note': 'Prefix taken modulo the ACK/HandshakeAck boolean byte (DESIGN 7). Completeness (decode rejecting what the reference accepts) is only labelled, not judged. '
               'Inputs <= 192 bytes in raw mode, ~1 KB in structured mode. Second compiler: the same tapes also run against a g++ -O2 ASan/UBSan build of the code under test (engine \'tape-rc (second compiler…)\'), because the two compilers instrument and optimise undefined behaviour differently (e.g. abs(INT64_MIN) is only reported by g++\'s UBSan, and clang can fold such UB into a correct-looking result); failing tapes of that engine are kept as *.gcc.tape and replayed with that build.',
 'assumptions': ['OpenSSL HMAC-SHA256 reference', '64-bit size_t (the build under test)'],
 'tiers': {'quick': [rc(40000), fuzz(15, 1, max_len=212), rc(40000, suffix='_gcc')],
           'thorough': [rc(200000, W), fuzz(600, W, max_len=212), rc(200000, 4, suffix='_gcc')]}}
