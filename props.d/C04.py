from propdefs import rc, fuzz, script, W

PROP = {
 'title': 'Persisted chunk files do not outlive the chunk',
 'level': 'fault_enumeration',
 'technique': 'generated store/lookup/sweep/restart histories (rapidcheck tapes) with exhaustive crash injection at every filesystem-operation point of each history (forked child _exits at the k-th hook point), file-system oracle',
 'design_ref': 'DESIGN.md 5/C04',
 'level_text': 'For each generated history over a persistent ChunkStore a crash-free pass checks the directory against a model after every operation (live chunk files hold exactly the stored '
               'bytes; no file of an expired chunk survives a sweep, including files of earlier instances; a file is all zeros just before it is removed) and counts the N filesystem-operation '
               'points; then for every k <= N the history is re-run in a forked child that dies at point k, and a restarted store plus a sweep past every deadline must leave no chunk file. '
               'Fault enumeration is the right level: the crash-point quantifier is enumerated completely per history, the history quantifier is sampled.',
 'level_note': 'Fault model: process death exactly at the instrumented operation boundaries (guarded hook EPH_VERIF_FSOP in ChunkStore.cpp: exists / open-trunc / write / flush / file_size / '
               'wipe-write / close / remove). Torn single writes and un-synced metadata (power loss) are outside the model. Trusted base: the interposed clock and the directory listing.',
 'assumptions': ['a crash is modelled as _exit at a hook point; buffered stream data not yet flushed is lost with the process, as in a real crash',
                 'one daemon instance per storage directory at a time'],
 'tiers': {'quick': [rc(40)],
           'thorough': [rc(300, W)]}}
