from propdefs import rc, fuzz, script, W

PROP = {'title': 'Configuration layers apply in the documented precedence',
 'level': 'exploration',
 'technique': 'black-box property-based testing of the real `eph` binary (Hypothesis): generated layered configurations (YAML/JSON profiles with extends graphs, environment '
              'overlay, flags) compared with a model of the documented precedence rule through the started daemon\'s control socket',
 'design_ref': 'DESIGN.md 5/C32',
 'needs_rc': False,
 'extra_targets': ['build/bin/eph'],
 'confirm_replays': 3,
 'replay_cmd': ['{ROOT}/harness/C32_hyp.py', '--replay', '{path}'],
 'level_text': 'Each case starts `eph ... serve` with 17 settings spread over flag / environment overlay / selected profile / up to four ancestors (distinct value per layer, decoy '
               'profiles, three ways of selecting the profile, aliases, spellings, YAML or JSON) and reads DEFAULTS, STATUS and authenticated/unauthenticated STORE probes; cyclic or '
               'missing profiles on the selected chain must end the process with E_CONFIG_PROFILE within 20 s.',
 'level_note': 'Trusted base: the ten-line precedence model in harness/C32_hyp.py. Values are kept where Node\'s sanitisation is the identity (TTL ranges disjoint, window >= interval); '
               'one key alias per setting per case (mixing aliases across layers is outside the stated rule). A cycle among profiles that are not on the selected chain is '
               'accepted either way. A daemon that cannot bind its port, or any timeout, is inconclusive.',
 'assumptions': ['free loopback ports in 11000-31000', 'DEFAULTS/STATUS report the configuration the daemon actually runs with (the control and transport listeners are also reached directly)'],
 'tiers': {'quick': [script(['{ROOT}/harness/C32_hyp.py', '--cases', '160', '--workers', '4'], name='hyp', label='Hypothesis black-box (eph serve + DEFAULTS)', timeout_s=900)],
           'thorough': [script(['{ROOT}/harness/C32_hyp.py', '--cases', '1500', '--workers', '8'], name='hyp', label='Hypothesis black-box (eph serve + DEFAULTS)', timeout_s=3600)]}}
