from propdefs import rc, fuzz, script, W

PROP = {
 'title': 'Stored content round-trips and tampered replicas are never accepted',
 'level': 'exploration',
 'technique': 'property-based differential testing of store / replica import / CLI decryption against reference ChaCha20, reference GF(256) share interpolation and OpenSSL SHA-256, with one generated corruption per case (rapidcheck tapes + libFuzzer)',
 'design_ref': 'DESIGN.md 5/C11',
 'level_text': 'Generated payloads (block edges, 64 KiB), chunk ids whose counter prefix sits at the 2^32 wrap, shard configurations over the whole 1..255 range, and one corruption of the '
               'replica bytes or of a manifest field per case. The stored bytes must be the reference ciphertext under the key the manifest shares reconstruct; the local lookup, a replica '
               'import on a fresh node and the CLI decrypt helper must return the payload; a replica is accepted iff an independent acceptance predicate (reference decrypt, SHA-256 '
               'against the manifest hash) holds, and a rejected one leaves the importing node empty.',
 'level_note': 'Trusted base: refs::chacha20, refs GF(256), OpenSSL SHA-256. Manifest corruptions are re-encoded with the repository codec (plumbing; C17 judges it). Exceptions escaping '
               'receive_chunk are counted as rejection here and judged under C35. The CLI path is the anonymous-namespace decrypt_chunk_with_manifest reached through an include shim.',
 'assumptions': ['corrupted share indices are moved to unused non-zero indices (duplicate / zero indices are C10 and C35 territory)'],
 'tiers': {'quick': [rc(400)],
           'thorough': [rc(3000, W), fuzz(180, 8, max_len=16)]}}
