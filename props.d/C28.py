from propdefs import rc, fuzz, script, W

PROP = {
 'title': 'STORE admission enforces size, TTL, PoW and an unforgeable rate limit',
 'level': 'exploration',
 'technique': 'stateful property-based testing of an in-process daemon::ControlServer under a harness-owned virtual clock; reference PoW validator (OpenSSL) and sliding-window model of acceptances (rapidcheck tapes + libFuzzer)',
 'design_ref': 'DESIGN.md 5/C28',
 'level_text': 'Histories of up to 40 requests from the one loopback address against a token-less daemon with a small stream cap (1 B..64 KiB), a generated TTL window and store PoW '
               'difficulty 0..10: valid STOREs, STOREs with one varied admission field (PAYLOAD-LENGTH at cap-1 / cap / cap+1 / 2^63 / 2^64-1 / non-numeric with the body withheld when '
               'over the cap; TTL at min-1 / min / max / max+1 / 0 / huge / non-numeric; nonce valid, valid only for the raw filename / another size / another payload, missing, '
               'malformed, random), streamed FETCH bursts, and clock advances to the exact 30 s window edges (+-1 ns); each request carries a different, a shared, an empty or no TOKEN '
               'header. A STORE must be refused unless length <= cap, TTL in window and the reference digest meets the difficulty for the sanitised filename; an over-cap length must be '
               'answered while no body byte was sent; refused STOREs leave the chunk store unchanged; a fully valid STORE must be accepted when fewer than 6 STOREs were sent in the last '
               '30 s; at every acceptance the closed 30 s window holds <= 6 accepted STOREs (<= 12 streamed FETCHes).',
 'level_note': 'Trusted base: OpenSSL SHA-256 over the stated field encoding, the reference filename sanitiser (last path component, not "", ".", "..", <= 255 bytes) and the interposed '
               'steady clock. The 30 s window is read as closed ([t-30 s, t]), as in DESIGN. An empty TTL value may be treated as absent. Only a token-less daemon is generated (C27 covers tokens).',
 'assumptions': ['all requests come from 127.0.0.1 (one client address)', 'PATH values are printable and contain no backslash-separated components'],
 'confirm_replays': 3,
 'tiers': {'quick': [rc(200)],
           'thorough': [rc(1500, W), fuzz(120, 4, max_len=12 + 8 * 40)]}}
