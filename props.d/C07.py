from propdefs import rc, fuzz, script, W

PROP = {
 'title': 'Routing table answers XOR-closest live peers and keeps bucket shape',
 'level': 'exploration',
 'technique': 'stateful property testing with structural invariants and an independent XOR-distance oracle, virtual clock (rapidcheck tapes + libFuzzer)',
 'design_ref': 'DESIGN.md 5/C07',
 'level_text': 'Generated registration/refresh/sweep/advance/query histories over ids built to share long prefixes with the local id (so buckets '
               'overflow and high-prefix buckets are used); after every operation the bucket structure is checked against independently computed '
               'bucket indices and every closest-peer answer against an independent big-endian XOR ordering of the unexpired held contacts.',
 'level_note': 'Trusted base: harness-side XOR/ordering/bucket-index routines; bucket contents are read through a template-instantiation accessor '
               '(no source hook). Which contact is evicted from a full bucket is not asserted (the property does not state it).',
 'assumptions': ['steady_clock is the only time source of KademliaTable (interposed by the harness)'],
 'tiers': {'quick': [rc(8000)],
           'thorough': [rc(40000, W), fuzz(180, 8, max_len=8 + 8 * 70)]}}
