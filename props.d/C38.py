from propdefs import rc, fuzz, script, W

PROP = {
 'title': 'Update metadata parsing is total and decodes JSON strings correctly',
 'level': 'exploration',
 'technique': 'property-based round trip (model -> strict RFC 8259 renderer -> parser), strict iterative reference JSON parser for all other accepted documents, metamorphic "outcome independent of the byte after the input", forked children for deep nesting (rapidcheck tapes + libFuzzer with a JSON dictionary)',
 'design_ref': 'DESIGN.md 5/C38',
 'level_text': 'Modes: model (fields of random valid UTF-8 incl. controls, U+0080/U+07FF/U+0800/U+D7FF/U+E000/U+FFFF and non-BMP, each character rendered raw / short escape / \\uXXXX either case / surrogate pair; '
               'random whitespace, key order, escaped key names, unknown members, non-string optional members, non-object downloads), mutated (truncate / delete / replace / insert one byte), '
               'nesting ("[" / {"a": / alternating, bare or inside a valid document, depth from a table up to 10^6), raw bytes, token soup. Checked: true or false+non-empty message, no exception, no sanitizer report, '
               'no stack overflow (documents with > 600 open brackets run in a forked child), no hang (watchdog), outcome independent of the byte following the string_view, canonical documents accepted with every field equal to the model, '
               'and for any accepted strict-JSON document every reported field equals a same-named JSON string.',
 'level_note': 'Acceptance asserted only for canonical documents (strict schema, depth <= 32, numbers inside double range). Documents that are not strict RFC 8259 (invalid UTF-8, lone surrogates, raw controls) '
               'are only required not to crash. The reference parser is self-checked on 36 mini vectors each run. Second compiler: the same tapes also run against a g++ -O2 ASan/UBSan build of the code under test (engine \'tape-rc (second compiler…)\'), because the two compilers instrument and optimise undefined behaviour differently (e.g. abs(INT64_MIN) is only reported by g++\'s UBSan, and clang can fold such UB into a correct-looking result); failing tapes of that engine are kept as *.gcc.tape and replayed with that build.',
 'assumptions': ['8 MB main-thread stack (default ulimit) for the stack-overflow clause', 'duplicate keys: any same-named string is accepted as "the corresponding JSON string"'],
 'tiers': {'quick': [rc(8000), rc(8000, suffix='_gcc')],
           'thorough': [rc(200000, W), fuzz(300, W, max_len=16 + 4096), rc(200000, 4, suffix='_gcc')]}}
