from propdefs import rc, fuzz, script, W

PROP = {
 'title': 'Every lifetime the node creates lies inside the sanitised TTL window',
 'level': 'exploration',
 'technique': 'property-based testing over generated configurations and requested TTLs with exact virtual-clock lifetime measurement; in-process control server for the TTL header (rapidcheck tapes + libFuzzer)',
 'design_ref': 'DESIGN.md 5/C02',
 'level_text': 'Configurations with every TTL/rotation/announce/PoW field drawn from a boundary table (negative, zero, +-1 around 1 s / 5 s / 1 h / 24 h, 2^31, 2^62, '
               'inverted bounds) and requested TTLs from the same table; the sanitised config is checked against the stated window, and after every store the lifetime of the '
               'chunk record, manifest, shard record and self-announcement is measured exactly under the frozen clock. Half the cases send the TTL through a real control-plane '
               'STORE request (in-process ControlServer, raw TCP client) incl. empty, non-numeric and huge header values.',
 'level_note': 'Trusted base: interposed clocks; node state read through NodeTestAccess. Only the fields the property lists are randomised (other intervals stay at defaults). '
               'A negative control TTL may be refused as invalid rather than out-of-range; only refusal and unchanged state are required there.',
 'assumptions': ['Config fields not named by the property keep their defaults'],
 'tiers': {'quick': [rc(8000)],
           'thorough': [rc(40000, W), fuzz(120, 4, max_len=16 + 8 * 8)]}}
