from propdefs import rc, fuzz, script, W

PROP = {
 'title': 'Protocol messages round-trip through the wire codec',
 'level': 'exploration',
 'technique': 'property-based round trip + differential test against an independent encoder/decoder written from the wire description (rapidcheck tapes)',
 'design_ref': 'DESIGN.md 5/C15',
 'level_text': 'All six types, versions 0..255, ids, strings (empty, NUL, 64 KiB), shard lists 0..300, TTL/nonce boundary tables: decode(encode(m)) must equal m with the version '
               'clamped to 1..4 (announce nonce compared iff clamped version >= 3), first byte = clamped version, encode(m) byte-identical to the independent encoder.',
 'level_note': 'Announce work_nonce is not compared below wire version 3 (not carried; property silent). type/payload-alternative mismatches are not generated. Second compiler: the same tapes also run against a g++ -O2 ASan/UBSan build of the code under test (engine \'tape-rc (second compiler…)\'), because the two compilers instrument and optimise undefined behaviour differently (e.g. abs(INT64_MIN) is only reported by g++\'s UBSan, and clang can fold such UB into a correct-looking result); failing tapes of that engine are kept as *.gcc.tape and replayed with that build.',
 'assumptions': ['message.type matches the payload alternative', 'TTL in [0, 2^32), field lengths < 2^32'],
 'tiers': {'quick': [rc(100000), rc(100000, suffix='_gcc')], 'thorough': [rc(500000, W), rc(500000, 4, suffix='_gcc')]}}
