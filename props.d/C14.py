from propdefs import rc, fuzz, script, W

PROP = {'title': 'Transport sessions deliver exactly what was sent, within the size limit',
 'level': 'exploration',
 'technique': 'property-based testing over real loopback TCP sessions (rapidcheck tapes): generated send sequences against an explicit '
              'expected-delivery list, plus a raw TCP peer in the harness that checks every wire frame with an RFC 8439 reference cipher',
 'design_ref': 'DESIGN.md 5/C14',
 'level_text': 'Generated sequences of sends (sizes 0, 1, 63..65, 4 KiB, 64 KiB, 2^20-1, 2^20, 2^20+1, 2*2^20 or uniform <= 2 KiB; bursts and gaps of '
               '0.2..20 ms; both directions) run over real loopback sessions in five topologies: two SessionManagers, a raw TCP peer as client, a raw '
               'TCP peer as server, two Nodes (PoW handshake + send_secure), and two threads sending to one peer at once. The receiving handler must see '
               'exactly the accepted payloads <= 1 MiB, once, in order, byte-identical (a sentinel closes each direction; counts are re-read after the '
               'session ended); send() above 1 MiB must return false and add no byte to the stream; each frame read by the raw peer must be '
               'nonce|be32(len)|ChaCha20(key, nonce, 0, payload) under the reference cipher with pairwise distinct nonces; a raw frame announcing more '
               'than 1 MiB (header only or with body, lengths up to 2^32-1) must end the session without a handler call. Exploration is the right '
               'level: the claim is an input/output relation over a real socket whose schedule the harness does not own.',
 'level_note': 'Trusted base: the expected-delivery lists and the raw peer in harness/C14.cpp, refs::chacha20 (RFC 8439, self-checked each run), the '
               'kernel TCP stack. Timeouts (15 s per wait) and failed set-ups are counted as inconclusive labels, never as violations; a failure is '
               'replayed 3x before it is reported. Payloads at the 1 MiB edge cost ~0.1-0.3 s each under ASan, so each case carries at most ~2.25 MiB. '
               'Concurrent-sender cases depend on thread timing: they can miss an interleaving defect, they cannot invent one.',
 'assumptions': ['loopback TCP delivers bytes in order and ends a connection only when one side closes it (a session that ends while nobody closed '
                 'it is attributed to the implementation)',
                 'refs::chacha20 is a correct RFC 8439 ChaCha20 (checked against the RFC vectors at start-up)',
                 'a wait longer than 15 s for a delivery on a session that is still up is load noise (inconclusive), not a lost message'],
 'confirm_replays': 3,
 'watchdog_s': 120,
 'tiers': {'quick': [('rc', {'cases': 250, 'workers': 1})],
           'thorough': [('rc', {'cases': 1500, 'workers': 16})]}}
