from propdefs import rc, fuzz, script, W

PROP = {
 'title': 'A cleanup tick removes all expired state and reports each expiry once',
 'level': 'exploration',
 'technique': 'stateful model-based property testing of a real Node under a harness-owned virtual clock, with a publisher node for foreign manifests and a fake peer (rapidcheck tapes + libFuzzer)',
 'design_ref': 'DESIGN.md 5/C05',
 'level_text': 'Generated histories of stores, foreign manifest ingests / announces / replica receipts, lookups placed between a deadline and the next tick, exact-instant clock '
               'advances and ticks; after every tick whose cleanup branch ran, every table the property names (chunk store, locators, contacts, key-share records, manifest cache, '
               'swarm plans, self announcements, TTL audit) is inspected for anything expired, and the cumulative cleanup notifications are compared with the model multiset of '
               'local chunk expiries.',
 'level_note': 'Trusted base: the model in harness/C05.cpp; private node state is read through NodeTestAccess and a template-instantiation accessor (no hook). An expired record '
               'that is overwritten by a new store before anything noticed the expiry may be reported or not (statement silent).',
 'assumptions': ['steady and system clocks advance in lock-step (interposed)', 'announce PoW off, uploads unlimited so peer requests are always served'],
 'tiers': {'quick': [rc(2000)],
           'thorough': [rc(15000, W), fuzz(180, 8, max_len=8 + 8 * 60)]}}
