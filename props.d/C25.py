from propdefs import rc, fuzz, script, W

PROP = {
 'title': 'Relay bridges deliver bytes only to the bridged partner',
 'level': 'exploration',
 'technique': 'stateful property-based testing of the real RelayServer + EventLoop stepped single-threaded from the harness thread, loopback TCP clients, '
              'stream-grammar oracle over tagged probe bytes (rapidcheck tapes + libFuzzer on the same case function)',
 'design_ref': 'DESIGN.md 5/C25',
 'level_text': 'Generated histories over 2-6 real TCP clients (REGISTER incl. duplicate ids, re-register, re-register while claimed, bad hex; CONNECT valid / claimed peer / unknown / '
               'self / own id / from a registered session; identity whole, split, with trailing data, pipelined with the CONNECT line; tagged data writes up to 12 KiB around the '
               '4096-byte read size; half-typed lines; close / reset / half-close at every stage; actions batched into one epoll round) drive the unmodified server, whose event loop '
               'the harness steps to quiescence after every action. The oracle is written from the property and the client side of the protocol only: what a client reads must be relay '
               'text lines, then - after its own OK / BEGIN - exactly an in-order prefix of what its partner wrote after the bridge point; BEGIN only for a registered target of an accepted '
               'connector that wrote its identity and asked for an id this client registered; one bridge per connector and per target; nothing lost and no bridge dropped while both ends '
               'stay connected; EOF at the partner after a disconnect; a clean CONNECT to a sole, never-claimed registrant is accepted and bridged. Exploration is the right level: the '
               'claim is about all interleavings of a small protocol state machine, which bounded stateful search with shrinking covers densely.',
 'level_note': 'Trusted base: the client-side bookkeeping and line classifier in harness/relay_harness.hpp; Linux loopback TCP (the harness flushes delayed ACKs with TCP_QUICKACK so that '
               'the relay\'s Nagle-held replies arrive within the step; expectations of the form "has arrived" get a 1 s real-time grace before they count, safety checks need none). '
               'One epoll batch = one step, so orders inside a batch are the kernel\'s; real multi-threaded timing is not explored. A batch that makes > 200 000 allocations is reported as a '
               'runaway loop. Duplicate-id tie-breaks, reply wording and whether a once-claimed peer becomes claimable again are deliberately not asserted.',
 'assumptions': ['SIGPIPE is ignored in the relay process (as src/relay/main.cpp does)',
                 'clients are TCP peers on loopback; TCP itself delivers in order',
                 'relay text lines are OK / ERROR ... / BEGIN <hex> / PING; PONG and blank lines are not answered (client side of src/network/RelayClient.cpp)'],
 'confirm_replays': 2,
 'tiers': {'quick': [rc(4000)],
           'thorough': [rc(20000, W), fuzz(180, 8, max_len=8 + 6 * 64)]}}
