from propdefs import rc, fuzz, script, W

PROP = {
 'title': 'A stored chunk is retrievable exactly while it is live',
 'level': 'exploration',
 'technique': 'stateful model-based property testing under a harness-owned virtual clock, ChunkStore layer and Node layer with a fake peer (rapidcheck tapes + libFuzzer)',
 'design_ref': 'DESIGN.md 5/C01',
 'level_text': 'Generated store/overwrite/lookup/fetch/peer-request/listing/sweep/tick histories with exact-instant clock advances (deadline, deadline-1ns, '
               'deadline+1ns) run against ChunkStore and against a real Node (peer requests arrive through the transport handler and the CHUNK / negative ACK '
               'frames are decrypted by the harness); every observation is compared with a reference map id -> (bytes, deadline).',
 'level_note': 'Trusted base: the reference model in harness/C01.cpp, the interposed steady/system clocks and random_device. ChunkStore::snapshot() listing an '
               'expired unswept record is judged only at the user-facing Node::stored_chunks(). A peer request for a live chunk must be answered with a CHUNK only '
               'when the remaining lifetime exceeds min TTL by one second (below that the node refuses to hand out a manifest the receiver would reject).',
 'assumptions': ['steady_clock/system_clock are the only time sources (interposed)', 'TTLs up to 10 years (now + ttl stays representable)'],
 'tiers': {'quick': [rc(6000)],
           'thorough': [rc(30000, W), fuzz(180, 8, max_len=8 + 8 * 40)]}}
