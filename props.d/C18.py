from propdefs import rc, fuzz, script, W

PROP = {
 'title': 'Manifest decoding is total and free of undefined behaviour',
 'level': 'exploration',
 'technique': 'tape-structured fuzzing of decode_manifest under ASan+UBSan (rapidcheck tapes + libFuzzer on the same case function): valid wire payloads from an independent encoder with targeted corruptions before/after base64, raw payload bytes, raw strings',
 'design_ref': 'DESIGN.md 5/C18',
 'level_text': 'Every generated string must make decode_manifest return or throw std::invalid_argument; other exception types, sanitizer reports and watchdog expiry are violations; '
               'accepted manifests must re-encode and decode to themselves. Corruptions target the 8 expiry bytes (arbitrary 64-bit and the +-9223372036 s boundary), count bytes '
               '(0xFF), 8/16-bit length fields, truncation at every field boundary, and base64/prefix damage; versions 1-4 and unsupported versions are generated.',
 'level_note': 'Inputs with an out-of-range expiry field are first run in a forked child so a UBSan abort is reported with a signature and a shrunk case; other memory errors end the '
               'worker and are reported from crash.tape (not shrunk). libstdc++ vector annotations are off, so an over-read that stays inside the payload vector capacity (<= 2 bytes '
               'when the base64 text is padded) is invisible; unpadded lengths are generated as often as padded ones. Second compiler: the same tapes also run against a g++ -O2 ASan/UBSan build of the code under test (engine \'tape-rc (second compiler…)\'), because the two compilers instrument and optimise undefined behaviour differently (e.g. abs(INT64_MIN) is only reported by g++\'s UBSan, and clang can fold such UB into a correct-looking result); failing tapes of that engine are kept as *.gcc.tape and replayed with that build.',
 'assumptions': ['ASan/UBSan report every out-of-bounds access / signed overflow executed', 'fork() is available to the worker'],
 'tiers': {'quick': [rc(60000), rc(30000, suffix='_gcc')], 'thorough': [rc(400000, W), fuzz(240, 8, max_len=17 + 10 * 24), rc(400000, 4, suffix='_gcc')]}}
