from propdefs import rc, fuzz, script, W

PROP = {
 'title': 'ChaCha20 matches RFC 8439 and is its own inverse',
 'level': 'exploration',
 'technique': 'property-based differential testing against an RFC-8439-written reference and OpenSSL EVP_chacha20, plus involution and piecewise-counter metamorphic checks (rapidcheck tapes + libFuzzer)',
 'design_ref': 'DESIGN.md 5/C09',
 'level_text': 'Generated keys (incl. all-zero, all-0xFF, RFC key), nonces, initial counters (0, 1, 2^31, 2^32-2, 2^32-1, and 2^32-1-j chosen so the run ends at or '
               'crosses the 32-bit wrap) and lengths (0, +-1 around 64/128/192, 256, 4096, uniform <= 700) are run through ChaCha20::apply and compared byte-for-byte '
               'with a reference written from RFC 8439 (32-bit counter wraps) and, while the counter does not wrap, with OpenSSL; apply(apply(x)) == x; pieces with '
               'advanced counter concatenate to the whole; CryptoManager::encrypt_with_key/decrypt_with_key equal the reference with counter LE32(chunk_id[0..3]) '
               'and the reported nonce.',
 'level_note': 'Trusted base: refs::chacha20 (self-checked each run against RFC 8439 2.3.2/2.4.2) and OpenSSL 3. After the wrap only the RFC-written reference is '
               'available (OpenSSL carries into the nonce word). Second compiler: the same tapes also run against a g++ -O2 ASan/UBSan build of the code under test (engine \'tape-rc (second compiler…)\'), because the two compilers instrument and optimise undefined behaviour differently (e.g. abs(INT64_MIN) is only reported by g++\'s UBSan, and clang can fold such UB into a correct-looking result); failing tapes of that engine are kept as *.gcc.tape and replayed with that build.',
 'assumptions': ['RFC 8439 with a 32-bit block counter that wraps mod 2^32 is the intended cipher', 'random_device is interposed so CryptoManager nonces replay deterministically'],
 'tiers': {'quick': [rc(40000), rc(40000, suffix='_gcc')],
           'thorough': [rc(150000, W), fuzz(120, 4, max_len=16 + 2 * 6), rc(150000, 4, suffix='_gcc')]}}
