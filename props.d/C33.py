from propdefs import rc, fuzz, script, W

PROP = {
 'title': 'STUN responses are parsed exactly and safely',
 'level': 'exploration',
 'technique': 'property-based testing against a reference RFC 5389 TLV walker + MAPPED/XOR-MAPPED decoders (rapidcheck tapes + libFuzzer on the same case function), exact-size buffers under ASan/UBSan',
 'design_ref': 'DESIGN.md 5/C33',
 'level_text': 'Datagrams <= 512 B are generated raw and structured (type {0x0101,0x0111,0x0001,one bit off,random}, right/wrong cookie, declared length exact/-4/-k/+4/+k/arbitrary, '
               'truncated / trailing bytes, transaction id match / one bit off / random, attribute sequences: unknown optional with odd lengths and arbitrary padding, MAPPED, XOR-MAPPED, '
               'IPv4/IPv6 with boundary ports/addresses, conflicting address, bad family, truncated/over-long values, comprehension-required, unpadded) and parsed from an exact-size heap copy. '
               'A result is allowed only if len>=20, type==0x0101, 20+declared<=len and the id matches, and must equal the reference decode of an address attribute lying inside the declared message; '
               'canonical responses must yield exactly the encoded address/port. The reference and the parser are both checked against the RFC 5769 2.2/2.3 sample responses each run.',
 'level_note': 'Completeness only on canonical strict-RFC responses (DESIGN 7). Tolerated: address values longer than the family needs (leading bytes used), cookie field not validated, '
               'IPv6 text compared through inet_pton (IPv4 text compared to the dotted quad). Second compiler: the same tapes also run against a g++ -O2 ASan/UBSan build of the code under test (engine \'tape-rc (second compiler…)\'), because the two compilers instrument and optimise undefined behaviour differently (e.g. abs(INT64_MIN) is only reported by g++\'s UBSan, and clang can fold such UB into a correct-looking result); failing tapes of that engine are kept as *.gcc.tape and replayed with that build.',
 'assumptions': ['libc inet_pton is a correct text-to-binary reference', 'an address attribute is well placed iff its header and value lie inside the declared message length on the 4-byte TLV walk from offset 20'],
 'tiers': {'quick': [rc(25000), rc(25000, suffix='_gcc')],
           'thorough': [rc(500000, W), fuzz(300, W, max_len=16 + 512), rc(500000, 4, suffix='_gcc')]}}
