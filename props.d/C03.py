from propdefs import rc, fuzz, script, W

PROP = {
 'title': 'State learned from a manifest never outlives that manifest',
 'level': 'exploration',
 'technique': 'stateful property testing of a real Node under a virtual clock: crafted manifest expiries at exact boundaries, state-digest metamorphic check for rejected manifests, deadline invariants after every step (rapidcheck tapes + libFuzzer)',
 'design_ref': 'DESIGN.md 5/C03',
 'level_text': 'Real manifests from a publisher node are re-encoded with expiries placed at/around min TTL, max TTL, the past and the far future and delivered through every arrival path '
               '(ingest, ANNOUNCE with generated TTL/endpoint/assigned shards, replica receipt, request_chunk), interleaved with exact clock advances and ticks. A manifest below the '
               'minimum remaining lifetime must leave a digest of all manifest-derived state unchanged; after every step every derived deadline must stay within the bound of the accepted '
               'manifests (remaining lifetime and max TTL), and pending fetches must end by their manifest expiry.',
 'level_note': 'Trusted base: the bound bookkeeping in harness/C03.cpp; private state read through NodeTestAccess / accessor. "Rejected without changing node state" means manifest-derived '
               'state; announce throttle / reputation bookkeeping may change. Acceptance is asserted only for ingest_manifest / receive_chunk with at least one second of slack.',
 'assumptions': ['steady and system clocks in lock-step (interposed)', 'announce PoW off; the announcing peer has a session (fetch dispatch needs no network)'],
 'tiers': {'quick': [rc(2000)],
           'thorough': [rc(15000, W), fuzz(180, 8, max_len=8 + 8 * 30)]}}
