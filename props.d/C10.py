from propdefs import rc, fuzz, script, W

PROP = {
 'title': 'Shamir sharing reconstructs from any threshold subset and rejects bad sets',
 'level': 'exploration',
 'technique': 'property-based testing against an independent GF(2^8) Lagrange reference (rapidcheck tapes + libFuzzer); exhaustive field axioms and exhaustive coefficient enumeration (t=2,3) through the interposed random_device every run',
 'design_ref': 'DESIGN.md 5/C10',
 'level_text': 'Generated (secret, t, n) over the whole 1<=t<=n<=255 range with boundary bias (t=1, t=n, n=254/255); each split is checked to return n shares with distinct '
               'non-zero indices lying on one polynomial of degree < t with constant term = secret (independent interpolation), then queried with valid subsets in any order, '
               'surplus, too-few, repeated-index (inside / beyond the first t), index-0 and out-of-domain sets. n=255 runs in a forked child under a 2 s timeout. '
               'Exhaustive every run: all field axioms of Shamir.cpp gf_add/gf_mul/gf_div (256^3 triples); coefficients -> t-1 share values is a bijection for t=2 '
               '(all 256 secret bytes, n=16; 32 secret bytes, n=254/255) and t=3 (65536 coefficient pairs, 4 secret bytes, all index pairs of n=6).',
 'level_note': 'Weaker readings (DESIGN 7): repeat beyond the first t, or surplus distinct shares -> invalid_argument or the true secret; index 0 and t=0/n=0/t>n only must not crash. '
               'The t=3 enumeration covers 4 secret byte values, not 256. Liveness bound 2 s (>= 100x the slowest legitimate split); other hangs fall to the runner watchdog. Second compiler: the same tapes also run against a g++ -O2 ASan/UBSan build of the code under test (engine \'tape-rc (second compiler…)\'), because the two compilers instrument and optimise undefined behaviour differently (e.g. abs(INT64_MIN) is only reported by g++\'s UBSan, and clang can fold such UB into a correct-looking result); failing tapes of that engine are kept as *.gcc.tape and replayed with that build.',
 'assumptions': ['refs GF(2^8)/0x11D carry-less multiply is a correct field (self-checked; the implementation is additionally checked against all field axioms exhaustively)',
                 'the coefficient enumeration applies only while split consumes one random_device draw per coefficient (checked; otherwise reported not applicable)',
                 'a split that has not returned after 2 s in a forked child is non-terminating'],
 'exhaustive_part': 'GF(256) field axioms over all 256^3 triples; coefficient->share bijection for t=2 (all secrets bytes) and t=3 (4 secret bytes), every run',
 'tiers': {'quick': [rc(2000), rc(1000, suffix='_gcc')],
           'thorough': [rc(12000, W), fuzz(120, 4, max_len=14 + 6 * 6), rc(6000, 4, suffix='_gcc')]}}
