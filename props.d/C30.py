from propdefs import rc, fuzz, script, W

PROP = {'title': '`eph fetch` only writes bytes that match the manifest',
 'level': 'exploration',
 'technique': 'black-box property-based testing of the real `eph` binary (Hypothesis): generated manifests from an independent Python encoder, harness-side fake '
              'transport peer / relay / control endpoints that answer honestly or dishonestly, filesystem oracle (SHA-256 of whatever was written)',
 'design_ref': 'DESIGN.md 5/C30',
 'needs_rc': False,
 'extra_targets': ['build/bin/eph'],
 'confirm_replays': 3,
 'replay_cmd': ['{ROOT}/harness/C30_hyp.py', '--replay', '{path}'],
 'level_text': 'Each case runs the sanitizer build of `eph fetch` against endpoints owned by the harness on all five discovery paths (transport hint, relay hint, control hint, '
               'control:// fallback, local daemon) with correct, substituted, truncated, extended, empty, partially-hash-colliding and protocol-level broken responses, in '
               'combinations of up to three endpoints and the --direct-only/--transport-only/--control-fallback flags; every file found afterwards must hash to the manifest '
               'hash, and an honest endpoint that was reached must yield the file. Three cases per run go through a real `eph serve` publisher to tie the fakes to the real node.',
 'level_note': 'Trusted base: cli_common.py (manifest codec, RFC 8439 ChaCha20 with its RFC vector self-check, GF(256) Shamir, transport framing) — cross-checked every run '
               'against a real daemon (byte-identical manifest re-encoding, end-to-end transport fetch). The relay path is exercised through a harness relay front '
               '(CONNECT/OK preamble then the real transport handshake), not through eph-relay-server. A timeout of the CLI is inconclusive, never a violation.',
 'assumptions': ['loopback TCP is available; the fake endpoints stand for arbitrary remote peers', 'an empty streamed payload carries no PAYLOAD-LENGTH and is not asserted to produce a file'],
 'tiers': {'quick': [script(['{ROOT}/harness/C30_hyp.py', '--cases', '200', '--workers', '4'], name='hyp', label='Hypothesis black-box (eph fetch)', timeout_s=900)],
           'thorough': [script(['{ROOT}/harness/C30_hyp.py', '--cases', '3000', '--workers', '8'], name='hyp', label='Hypothesis black-box (eph fetch)', timeout_s=3600)]}}
