from propdefs import rc, fuzz, script, W

PROP = {
 'title': 'Fetch scheduling respects limits, backs off, and always terminates',
 'level': 'exploration',
 'technique': 'stateful property testing of a real Node under a virtual clock with a reachable and an unreachable announcing peer; scheduler tables inspected after every operation (rapidcheck tapes + libFuzzer)',
 'design_ref': 'DESIGN.md 5/C24',
 'level_text': 'Generated histories of assigned-fetch announces (including re-announces of an in-flight fetch by the same and by the other peer), chunk arrivals, session loss/recovery, '
               'exact clock advances (retry instant, +-1 ns, manifest expiry) and ticks, under generated parallelism / attempt / back-off settings. After every operation the per-peer in-use '
               'count must equal the number of requests really in flight and respect the limit; consecutive failed dispatches must be spaced initial*2^(k-1) capped at the maximum; '
               'fetches must end on arrival, at manifest expiry (first tick) and at a failed dispatch reaching the attempt limit.',
 'level_note': 'Trusted base: NodeTestAccess reads of the scheduler tables; back-off doubling is asserted for runs of consecutive failures from a fresh fetch and for max_backoff <= 256 x '
               'initial (the shift is clamped at 2^8 in the code as an overflow guard). Send failure is produced by a peer without session and endpoint (no network involved).',
 'assumptions': ['clocks interposed', 'announce throttle kept out of the way by 1 s spacing (C21 judges it)'],
 'tiers': {'quick': [rc(800)],
           'thorough': [rc(6000, W), fuzz(180, 8, max_len=8 + 8 * 50)]}}
