from propdefs import rc, fuzz, script, W

PROP = {
 'title': 'Key rotation never leaves the two ends of a session on different keys',
 'level': 'exploration',
 'technique': 'property-based testing of two real Nodes joined by a loopback transport session under a harness-owned virtual clock with per-node skew; generated tick schedules; key-equality and message-delivery oracle (rapidcheck tapes)',
 'design_ref': 'DESIGN.md 5/C39',
 'level_text': 'Two nodes perform a mutual handshake and open a real TCP session; generated schedules of tick(A), tick(B), clock advances placed at the rotation instants (+-1 ns) and sends in '
               'both directions. After every step, if both ends report the session open their session keys must be equal and a payload sent must arrive byte-identical in the peer message '
               'handler. The virtual clock (with a per-node skew) makes the relative tick offsets exact and replayable.',
 'level_note': 'Known finding C39:diverged-after-rotation (see known_findings.json): the rotated key mixes in the local steady-clock instant and the ends rotate independently, so the first '
               'rotation leaves the session open on different keys. While it is listed the oracle stops judging a case at the first diverging rotation (counted under excluded) and keeps '
               'checking that nothing diverges before it. Delivery timeouts (2 s real time) are inconclusive, never violations.',
 'assumptions': ['steady_clock interposed; the skew applies to the thread that calls tick()', 'loopback TCP delivers within 2 s'],
 'confirm_replays': 3,
 'watchdog_s': 120,
 'tiers': {'quick': [rc(300)],
           'thorough': [rc(2500, W)]}}
