from propdefs import rc, fuzz, script, W

PROP = {
 'title': 'Inbound handshakes are accepted only with a valid key and valid PoW',
 'level': 'exploration',
 'technique': 'stateful property testing of the node handshake handler under a virtual clock against a reference PoW (OpenSSL SHA-256), reference DH/session-key derivation and a before/after state comparison (rapidcheck tapes + libFuzzer)',
 'design_ref': 'DESIGN.md 5/C20',
 'level_text': 'Generated handshake histories from three claimed peer ids (valid, invalid key, wrong nonce, another identity under the same claimed id, nonce solved for another responder, '
               'exact replay, random) at spacings around the cooldown edge (cooldown-1ns, cooldown, cooldown+1ns) are delivered to Node::handle_transport_handshake; acceptance must '
               'coincide with the reference admissibility predicate, accepted handshakes must register and acknowledge under the reference session key of the offered key, rejected ones '
               'must leave every key and the session table untouched and lower the claimed peer reputation.',
 'level_note': 'Trusted base: OpenSSL SHA-256/HMAC, refs::modexp, the PoW encoding and key derivation restated in the harness. The handler is called directly (NodeTestAccess); the '
               'socket path that feeds it is exercised in C14/C35.',
 'assumptions': ['PoW difficulty <= 8 in generated configurations', 'clocks interposed'],
 'tiers': {'quick': [rc(3000)],
           'thorough': [rc(20000, W), fuzz(180, 8, max_len=8 + 8 * 30)]}}
